//! proptest-driven runner, sharding, shrinking, replay files, evidence files, known findings.

use crate::env::Fail;
use proptest::strategy::{BoxedStrategy, Strategy, ValueTree};
use proptest::test_runner::{Config, RngSeed, TestCaseError, TestError, TestRunner};
use serde::{de::DeserializeOwned, Deserialize, Serialize};
use std::cell::RefCell;
use std::collections::{BTreeMap, BTreeSet, HashSet};
use std::hash::{Hash, Hasher};
use std::sync::Mutex;

/// Root of the verification tree: the directory of the `check` script (env PTV_ROOT), /verif by default.
pub fn verif_root() -> String {
    std::env::var("PTV_ROOT").unwrap_or_else(|_| "/verif".to_string())
}

thread_local! {
    pub static LAST_PANIC: RefCell<Option<(String, u32, String)>> = RefCell::new(None);
}

/// Marker payload of panics injected by the harness into user callbacks.
pub struct InjectedPanic;

pub fn install_panic_hook() {
    std::panic::set_hook(Box::new(|info| {
        let loc = info
            .location()
            .map(|l| (l.file().to_string(), l.line()))
            .unwrap_or(("?".into(), 0));
        let msg = if let Some(s) = info.payload().downcast_ref::<&str>() {
            s.to_string()
        } else if let Some(s) = info.payload().downcast_ref::<String>() {
            s.clone()
        } else if info.payload().downcast_ref::<InjectedPanic>().is_some() {
            "<injected>".to_string()
        } else {
            "<non-string payload>".to_string()
        };
        LAST_PANIC.with(|l| *l.borrow_mut() = Some((loc.0, loc.1, msg)));
    }));
}

pub fn take_last_panic() -> (String, u32, String) {
    LAST_PANIC
        .with(|l| l.borrow_mut().take())
        .unwrap_or(("?".into(), 0, "?".into()))
}

/// Result of executing one generated case.
#[derive(Default, Clone, Debug)]
pub struct CaseResult {
    pub fail: Option<Fail>,
    pub ev: BTreeMap<&'static str, u64>,
    pub nontrivial: bool,
    pub known_hits: BTreeSet<String>,
    /// a compact rendering of the case for the evidence samples
    pub sample: String,
    /// number of (state, query)-level sub-cases evaluated, when the check counts those
    pub sub_evals: u64,
    pub sub_nontrivial: Vec<u64>,
    /// the panic (if any) came from harness code: infrastructure error
    pub harness_bug: Option<String>,
}

#[derive(Clone, Debug, Serialize, Deserialize)]
pub struct KnownFinding {
    pub id: String,
    pub property: String,
    pub signature: String,
    pub status: String,
    pub what: String,
    #[serde(default)]
    pub commit: Option<String>,
    #[serde(default)]
    pub replay: Option<String>,
}

pub fn load_known() -> Vec<KnownFinding> {
    let p = format!("{}/known_findings.json", crate::engine::verif_root());
    match std::fs::read_to_string(&p) {
        Ok(s) => serde_json::from_str(&s).unwrap_or_else(|e| {
            eprintln!("cannot parse {p}: {e}");
            std::process::exit(2)
        }),
        Err(_) => Vec::new(),
    }
}

/// signatures tolerated for `prop` (status == "known")
pub fn known_sigs(prop: &str) -> BTreeSet<String> {
    static CACHE: std::sync::OnceLock<Vec<KnownFinding>> = std::sync::OnceLock::new();
    CACHE
        .get_or_init(load_known)
        .clone()
        .into_iter()
        .filter(|k| k.status == "known" && (k.property == prop || prop == "*"))
        .map(|k| k.signature)
        .collect()
}

#[derive(Default, Debug)]
pub struct Outcome {
    pub evaluations: u64,
    pub sub_evaluations: u64,
    pub nontrivial: HashSet<u64>,
    pub samples: Vec<String>,
    pub classes: BTreeMap<String, u64>,
    pub known_hits: BTreeMap<String, u64>,
    pub aborted_foreign: BTreeMap<String, u64>,
    pub violation: Option<Violation>,
    pub harness_bug: Option<String>,
    pub exhaustive: bool,
    pub extra: BTreeMap<String, serde_json::Value>,
    pub fallback_sample: Option<String>,
    pub is_replay: bool,
    /// non-trivial cases that are distinct by construction (exhaustive enumerations), counted exactly
    pub counted_nontrivial: u64,
}

#[derive(Debug, Clone)]
pub struct Violation {
    pub prop: String,
    pub sig: String,
    pub msg: String,
    pub replay: String,
}

impl Outcome {
    pub fn merge(&mut self, o: Outcome) {
        self.evaluations += o.evaluations;
        self.counted_nontrivial += o.counted_nontrivial;
        self.sub_evaluations += o.sub_evaluations;
        self.nontrivial.extend(o.nontrivial);
        for s in o.samples {
            if self.samples.len() < 6 {
                self.samples.push(s);
            }
        }
        for (k, v) in o.classes {
            *self.classes.entry(k).or_insert(0) += v;
        }
        for (k, v) in o.known_hits {
            *self.known_hits.entry(k).or_insert(0) += v;
        }
        for (k, v) in o.aborted_foreign {
            *self.aborted_foreign.entry(k).or_insert(0) += v;
        }
        if self.violation.is_none() {
            self.violation = o.violation;
        }
        if self.harness_bug.is_none() {
            self.harness_bug = o.harness_bug;
        }
        if self.fallback_sample.is_none() {
            self.fallback_sample = o.fallback_sample;
        }
        for (k, v) in o.extra {
            self.extra.insert(k, v);
        }
    }
}

pub fn fingerprint<T: Hash>(t: &T) -> u64 {
    let mut h = std::collections::hash_map::DefaultHasher::new();
    t.hash(&mut h);
    h.finish()
}

pub fn fp_str(s: &str) -> u64 {
    fingerprint(&s)
}

/// Which failures count as a violation of the property under check.
#[derive(Clone)]
pub struct Accept {
    pub props: Vec<&'static str>,
}
impl Accept {
    pub fn one(p: &'static str) -> Accept {
        Accept { props: vec![p] }
    }
    /// an entry is a property id ("C03") or a signature prefix ("C01:contents")
    pub fn accepts(&self, f: &Fail) -> bool {
        self.props.iter().any(|p| if p.contains(':') { f.sig.starts_with(p) } else { *p == f.prop })
    }
}

/// Run `cases` generated cases through `exec` with one proptest runner.
/// Stops at the first accepted failure, shrinks it, writes the replay file.
#[allow(clippy::too_many_arguments)]
pub fn run_shard<C, F>(
    prop_id: &str,
    label: &str,
    strategy: BoxedStrategy<C>,
    cases: u32,
    seed: u64,
    accept: &Accept,
    known: &BTreeSet<String>,
    exec: F,
) -> Outcome
where
    C: std::fmt::Debug + Clone + Serialize + 'static,
    F: Fn(&C) -> CaseResult,
{
    let out = RefCell::new(Outcome::default());
    let failed = RefCell::new(false);
    let mut seed_bytes = [0u8; 32];
    seed_bytes[..8].copy_from_slice(&seed.to_le_bytes());
    seed_bytes[8..16].copy_from_slice(&fp_str(label).to_le_bytes());
    let cfg = Config {
        cases,
        failure_persistence: None,
        rng_seed: RngSeed::Fixed(seed ^ fp_str(label)),
        max_shrink_iters: 4000,
        max_global_rejects: 1,
        ..Config::default()
    };
    let _ = seed_bytes;
    let mut runner = TestRunner::new(cfg);
    let res = runner.run(&strategy, |c| {
        case_begin(|| serde_json::to_string(&c).unwrap_or_default());
        let r = exec(&c);
        case_end();
        let already_failed = *failed.borrow();
        if let Some(hb) = &r.harness_bug {
            let mut o = out.borrow_mut();
            if o.harness_bug.is_none() {
                o.harness_bug = Some(format!("{hb}\ncase: {}", serde_json::to_string(&c).unwrap_or_default()));
            }
            return Ok(());
        }
        let is_violation = match &r.fail {
            Some(f) => accept.accepts(f) && !known.contains(&f.sig),
            None => false,
        };
        if !already_failed {
            let mut o = out.borrow_mut();
            o.evaluations += 1;
            o.sub_evaluations += r.sub_evals;
            for (k, v) in &r.ev {
                *o.classes.entry((*k).to_string()).or_insert(0) += *v;
            }
            for k in &r.known_hits {
                *o.known_hits.entry(k.clone()).or_insert(0) += 1;
            }
            if let Some(f) = &r.fail {
                if accept.accepts(f) && known.contains(&f.sig) {
                    *o.known_hits.entry(f.sig.clone()).or_insert(0) += 1;
                } else if !accept.accepts(f) {
                    *o.aborted_foreign.entry(format!("{}:{}", f.prop, f.sig)).or_insert(0) += 1;
                }
            }
            if r.nontrivial && !is_violation {
                let fp = fp_str(&serde_json::to_string(&c).unwrap_or_default());
                if o.nontrivial.insert(fp) && o.samples.len() < 3 {
                    o.samples.push(r.sample.clone());
                }
            }
            let mut new_sub = false;
            for fp in &r.sub_nontrivial {
                new_sub |= o.nontrivial.insert(*fp);
            }
            if new_sub && o.samples.len() < 3 {
                o.samples.push(r.sample.clone());
            }
            if o.fallback_sample.is_none() {
                o.fallback_sample = Some(r.sample.clone());
            }
        }
        if is_violation {
            *failed.borrow_mut() = true;
            let f = r.fail.unwrap();
            Err(TestCaseError::fail(format!("{}|{}|{}", f.prop, f.sig, f.msg)))
        } else {
            Ok(())
        }
    });
    let mut o = out.into_inner();
    match res {
        Ok(()) => {}
        Err(TestError::Fail(reason, minimal)) => {
            // re-run the minimal case for the final message
            let r = exec(&minimal);
            let (p, sig, msg) = match r.fail {
                Some(f) => (f.prop.to_string(), f.sig, f.msg),
                None => {
                    let s = reason.message().to_string();
                    let mut it = s.splitn(3, '|');
                    (
                        it.next().unwrap_or("?").to_string(),
                        it.next().unwrap_or("?").to_string(),
                        it.next().unwrap_or("?").to_string(),
                    )
                }
            };
            let replay = write_replay(prop_id, label, seed, &minimal, &p, &sig, &msg);
            o.violation = Some(Violation {
                prop: p,
                sig,
                msg,
                replay,
            });
        }
        Err(TestError::Abort(r)) => {
            o.harness_bug = Some(format!("proptest aborted: {r}"));
        }
    }
    o
}

#[derive(Serialize, Deserialize, Debug, Clone)]
pub struct ReplayFile {
    pub property: String,
    pub check: String,
    pub seed: u64,
    pub failed_oracle: String,
    pub signature: String,
    pub message: String,
    pub case: serde_json::Value,
}

pub fn write_replay<C: Serialize>(prop_id: &str, label: &str, seed: u64, case: &C, p: &str, sig: &str, msg: &str) -> String {
    let dir = format!("{}/out/replays", crate::engine::verif_root());
    let _ = std::fs::create_dir_all(&dir);
    let safe: String = label.chars().map(|c| if c.is_alphanumeric() { c } else { '_' }).collect();
    let path = format!("{dir}/{prop_id}-{safe}-{seed}.json");
    let rf = ReplayFile {
        property: prop_id.to_string(),
        check: label.to_string(),
        seed,
        failed_oracle: p.to_string(),
        signature: sig.to_string(),
        message: msg.to_string(),
        case: serde_json::to_value(case).unwrap(),
    };
    std::fs::write(&path, serde_json::to_string_pretty(&rf).unwrap()).unwrap();
    path
}

pub fn read_replay<C: DeserializeOwned>(path: &str) -> (ReplayFile, C) {
    let s = std::fs::read_to_string(path).unwrap_or_else(|e| {
        eprintln!("cannot read replay {path}: {e}");
        std::process::exit(2)
    });
    let rf: ReplayFile = serde_json::from_str(&s).unwrap_or_else(|e| {
        eprintln!("cannot parse replay {path}: {e}");
        std::process::exit(2)
    });
    let c: C = serde_json::from_value(rf.case.clone()).unwrap_or_else(|e| {
        eprintln!("cannot decode case of replay {path}: {e}");
        std::process::exit(2)
    });
    (rf, c)
}

/// Run several shards in parallel threads and merge.
pub fn run_parallel<T: Send + 'static>(jobs: Vec<T>, threads: usize, f: impl Fn(T) -> Outcome + Sync) -> Outcome {
    let queue = Mutex::new(jobs.into_iter().collect::<std::collections::VecDeque<T>>());
    let total = Mutex::new(Outcome::default());
    std::thread::scope(|s| {
        for _ in 0..threads.max(1) {
            s.spawn(|| {
                install_thread();
                loop {
                    let job = queue.lock().unwrap().pop_front();
                    let Some(job) = job else { break };
                    let o = f(job);
                    total.lock().unwrap().merge(o);
                }
            });
        }
    });
    total.into_inner().unwrap()
}

fn install_thread() {}

/// Start of the case currently executed by each worker thread (0 = idle), for the watchdog.
pub static CASE_STARTS: Mutex<Vec<(std::thread::ThreadId, std::time::Instant, String)>> = Mutex::new(Vec::new());

pub fn case_begin(desc: impl FnOnce() -> String) {
    let id = std::thread::current().id();
    let mut g = CASE_STARTS.lock().unwrap();
    g.retain(|(t, _, _)| *t != id);
    g.push((id, std::time::Instant::now(), desc()));
}
pub fn case_end() {
    let id = std::thread::current().id();
    CASE_STARTS.lock().unwrap().retain(|(t, _, _)| *t != id);
}

/// A case that runs longer than `limit_s` means the crate (or the harness) diverges or crawls:
/// inconclusive, reported as exit code 2 - never as a violation.
pub fn start_watchdog(prop: String, limit_s: u64) {
    std::thread::spawn(move || loop {
        std::thread::sleep(std::time::Duration::from_millis(500));
        let g = CASE_STARTS.lock().unwrap();
        for (_, t, desc) in g.iter() {
            if t.elapsed().as_secs() >= limit_s {
                let dir = format!("{}/out", crate::engine::verif_root());
                let _ = std::fs::create_dir_all(&dir);
                let path = format!("{dir}/watchdog-{prop}.json");
                let _ = std::fs::write(&path, desc);
                println!("INFRASTRUCTURE-ERROR property={prop}: a single case exceeded {limit_s} s (divergence in the code under test or in the harness); the case was written to {path}; result inconclusive");
                std::process::exit(2);
            }
        }
    });
}

#[derive(Serialize)]
pub struct Evidence {
    pub property_id: String,
    pub tier: String,
    pub seed: u64,
    pub level: String,
    pub coverage: serde_json::Value,
    pub assumptions: Vec<String>,
    pub wall_s: f64,
    pub violations: u64,
}

pub struct Report<'a> {
    pub id: &'a str,
    pub tier: &'a str,
    pub seed: u64,
    pub level: &'a str,
    pub rule: &'a str,
    pub assumptions: Vec<String>,
    pub wall_s: f64,
}

pub fn write_evidence(rep: &Report, o: &Outcome) {
    if std::env::var("PTV_NO_EVIDENCE").is_ok() {
        // experiments against deliberately broken trees must not overwrite the evidence of the real tree
        return;
    }
    let mut cov = serde_json::Map::new();
    cov.insert("evaluations".into(), (o.evaluations.max(o.sub_evaluations)).into());
    cov.insert("cases".into(), o.evaluations.into());
    cov.insert("sub_evaluations".into(), o.sub_evaluations.into());
    cov.insert("distinct_nontrivial".into(), (o.nontrivial.len() as u64 + o.counted_nontrivial).into());
    cov.insert("rule".into(), rep.rule.into());
    let mut samples = o.samples.clone();
    if samples.is_empty() {
        if let Some(f) = &o.fallback_sample {
            samples.push(format!("(no non-trivial case recorded; first case) {f}"));
        }
    }
    cov.insert("samples".into(), serde_json::to_value(&samples).unwrap());
    cov.insert("classes".into(), serde_json::to_value(&o.classes).unwrap());
    cov.insert("known_finding_hits".into(), serde_json::to_value(&o.known_hits).unwrap());
    cov.insert("aborted_on_foreign_oracle".into(), serde_json::to_value(&o.aborted_foreign).unwrap());
    if o.exhaustive {
        cov.insert("exhaustive".into(), true.into());
    }
    for (k, v) in &o.extra {
        cov.insert(k.clone(), v.clone());
    }
    let ev = Evidence {
        property_id: rep.id.to_string(),
        tier: rep.tier.to_string(),
        seed: rep.seed,
        level: rep.level.to_string(),
        coverage: serde_json::Value::Object(cov),
        assumptions: rep.assumptions.clone(),
        wall_s: rep.wall_s,
        violations: o.violation.is_some() as u64,
    };
    let dir = format!("{}/evidence", crate::engine::verif_root());
    let _ = std::fs::create_dir_all(&dir);
    std::fs::write(format!("{dir}/{}.json", rep.id), serde_json::to_string_pretty(&ev).unwrap()).unwrap();
}

/// Print the final verdict lines and return the exit code.
pub fn conclude(id: &str, o: &Outcome) -> i32 {
    let known = load_known();
    for (sig, n) in &o.known_hits {
        // findings of other properties are excluded by construction there and only counted
        let Some(k) = known.iter().find(|k| &k.signature == sig && k.property == id) else { continue };
        println!("KNOWN-FINDING: property={id} signature={sig} hits={n} {}", k.what);
    }
    if let Some(hb) = &o.harness_bug {
        println!("INFRASTRUCTURE-ERROR property={id}: {hb}");
        return 2;
    }
    if let Some(v) = &o.violation {
        println!("violated oracle: {} [{}]", v.prop, v.sig);
        println!("{}", v.msg);
        println!("VIOLATION property={id} replay={}", v.replay);
        return 1;
    }
    if o.is_replay {
        println!("REPLAY-OK property={id}");
    } else {
        println!(
            "OK property={id} evaluations={} distinct_nontrivial={}",
            o.evaluations.max(o.sub_evaluations),
            o.nontrivial.len() as u64 + o.counted_nontrivial
        );
    }
    0
}

/// Helper to draw one value from a strategy with a fixed seed (used by enumerators / tools).
pub fn sample_one<C: std::fmt::Debug>(s: &BoxedStrategy<C>, seed: u64) -> C {
    let cfg = Config {
        rng_seed: RngSeed::Fixed(seed),
        failure_persistence: None,
        ..Config::default()
    };
    let mut r = TestRunner::new(cfg);
    s.new_tree(&mut r).unwrap().current()
}
