//! Registry: property id -> check.

use crate::engine::*;
use crate::env::Focus;
use crate::gen::Weights;
use crate::hist::*;
use crate::pairs::*;
use crate::tp::ALL_TYPES;
use std::time::Instant;

pub struct Info {
    pub level: &'static str,
    pub rule: &'static str,
    pub assumptions: Vec<String>,
}

fn distinct_count(e: &Events, names: &[&str]) -> usize {
    names.iter().filter(|n| ev_has(e, n)).count()
}

fn other_ops(e: &Events) -> u64 {
    let total = e.get("ops_total").copied().unwrap_or(0);
    let _ = total;
    let mut n = 0;
    for (k, v) in e {
        if matches!(
            *k,
            "remove_keep_tree" | "remove_children" | "retain" | "clear" | "entry.insert" | "entry.or_insert" | "entry.or_insert_with"
                | "entry.or_default" | "entry.and_modify.or_insert" | "entry.match" | "get_mut" | "get_lpm_mut" | "iter_mut"
                | "values_mut" | "children_mut" | "view_mut.set" | "view_mut.remove" | "view_mut.value_mut" | "view_mut.iter_mut"
                | "union_mut" | "intersection_mut" | "difference_mut" | "covering_difference_mut" | "collect" | "from_iter" | "clone_swap"
        ) {
            n += v;
        }
    }
    n
}

fn nt_c01(e: &Events) -> bool {
    ev_has(e, "live_ge3") && ev_has(e, "removed_hit") && ev_has(e, "insert_after_remove") && other_ops(e) > 0
}
fn nt_c02(e: &Events) -> bool {
    ev_has(e, "lpm_nested_cover") && ev_has(e, "leftover_created")
}
fn nt_c03(e: &Events) -> bool {
    ev_has(e, "live_ge3")
}
fn nt_c04(e: &Events) -> bool {
    distinct_count(
        e,
        &[
            "keep_tree_hit", "remove_children_hit", "retain_removed", "clear", "occupied_remove", "vacant_insert",
            "view_set_on_valueless", "view_remove_hit", "collect", "clone_swap", "from_iter", "occupied_insert",
        ],
    ) >= 2
        && (ev_has(e, "occupied_remove") || ev_has(e, "view_set_on_valueless") || ev_has(e, "view_remove_hit") || ev_has(e, "vacant_insert"))
}
fn nt_c09(e: &Events) -> bool {
    ev_has(e, "cover_ge2")
}
fn nt_c10(e: &Events) -> bool {
    ev_has(e, "children_strict_subset") && (ev_has(e, "remove_children_strict_subset") || ev_has(e, "retain_nonconstant"))
}
fn nt_c13(e: &Events) -> bool {
    (ev_has(e, "mut_traversal_strict_subset") || ev_has(e, "setop_mut_both_nonempty")) && ev_has(e, "write_through_ref")
}
fn nt_c15(e: &Events) -> bool {
    ev_has(e, "collapse") || ev_has(e, "retain_removed_ge2")
}
fn nt_c16(e: &Events) -> bool {
    ev_has(e, "collapse") && ev_has(e, "insert_after_remove")
}
fn nt_c18(e: &Events) -> bool {
    ev_has(e, "insert_existing") && (ev_has(e, "or_insert_on_occupied") || ev_has(e, "write_through_ref"))
}
fn nt_c20(e: &Events) -> bool {
    ev_has(e, "boundary_len") && ev_has(e, "handle_seq_ge2")
}

fn nt_sub(_e: &Events) -> bool {
    false
}

fn all_types() -> Vec<&'static str> {
    ALL_TYPES.to_vec()
}
fn host_types() -> Vec<&'static str> {
    ALL_TYPES.iter().copied().filter(|t| *t != "cidr4" && *t != "cidr6").collect()
}

/// (cases per type-shard, shards, max_ops)
fn budget(tier: &str, quick: (u32, u32, usize), thorough: (u32, u32, usize)) -> (u32, u32, usize) {
    if tier == "thorough" {
        thorough
    } else {
        quick
    }
}

pub fn hist_spec(id: &str, tier: &str) -> Option<(HistSpec, Info)> {
    let mk = |id: &'static str,
              focus: &[u32],
              accept: Vec<&'static str>,
              weights: Weights,
              types: Vec<&'static str>,
              b: (u32, u32, usize),
              full_queries: bool,
              stop_on_taint: bool,
              nt: fn(&Events) -> bool| HistSpec {
        id,
        label: id,
        focus: Focus::of(focus),
        accept,
        weights,
        types,
        scale: false,
        max_uni: 14,
        min_uni: 2,
        min_ops: 0,
        max_ops: b.2,
        cases: b.0,
        shards: b.1,
        full_queries,
        stop_on_taint,
        nontrivial: nt,
        post: Post::None,
        set_mode: false,
        panic_ops: match id {
            "C01" => vec!["insert", "remove", "remove_keep_tree", "remove_children", "retain", "clear", "entry*", "vacant*", "occupied*", "get", "get_mut", "get_key_value", "contains_key", "collect", "from_iter", "view_mut.set", "view_mut.remove", "iter"],
            "C02" => vec!["get_lpm", "get_lpm_prefix", "get_lpm_mut"],
            "C04" => vec!["insert", "remove", "remove_keep_tree", "remove_children", "retain", "clear", "entry*", "vacant*", "occupied*", "collect", "from_iter"],
            "C03" => vec!["iter*", "keys", "values*", "into_*", "ref_into_iter", "view_iter", "view_into_iter"],
            "C09" => vec!["cover*", "get_spm*", "get_lpm*"],
            "C10" => vec!["children*", "into_children", "remove_children", "retain"],
            "C11" => vec!["view_at", "view_mut_at", "view_mut.split", "view_mut.left", "view_mut.right", "view.left", "view.right", "view_mut", "view.iter"],
            "C12" => vec!["view.find*", "view_mut.find*", "view.view_at", "view_mut.view_mut_at"],
            "C13" => vec!["iter_mut", "values_mut", "children_mut", "get_mut", "get_lpm_mut", "view_mut.iter_mut", "view_mut.values_mut", "view_mut.into_iter", "view_mut.value_mut", "view_mut.prefix_value_mut", "union_mut", "intersection_mut", "difference_mut", "covering_difference_mut"],
            _ => vec![],
        },
    };
    let gen_note = "cases are proptest-generated (universe by random walk over related prefixes, operation list over the complete public mutator alphabet, two maps with different value types); every case is executed against the crate built from /repo's working tree and a BTreeMap model in lock-step";
    let r = match id {
        "C01" => (
            mk("C01", &[1], vec!["C01", "C03"], Weights::full(), all_types(), budget(tier, (520, 4, 40), (1500, 16, 200)), true, false, nt_c01),
            Info {
                level: "exploration",
                rule: "non-trivial = history with >=3 keys live at some point, a removal-class op that hit a present key, an insert-class op after it and >=1 op outside {insert, remove}; distinct by hash of the serialized case",
                assumptions: vec![gen_note.into(), "return value of every mutating call and all exact-match observers (get, get_mut, get_key_value, contains_key, entry.get/key) are compared after every step for the query set (all 511 prefixes on the 8-bit type for histories <= 30 ops)".into()],
            },
        ),
        "C02" => (
            mk("C02", &[2], vec!["C02"], Weights::leftovers(), all_types(), budget(tier, (400, 4, 30), (1200, 16, 120)), true, false, nt_c02),
            Info {
                level: "exploration",
                rule: "non-trivial = history that left a value-less leftover node and produced a query with >=2 nested covering entries whose LPM is strictly shorter than the query; distinct by hash of the case",
                assumptions: vec![gen_note.into(), "oracle: linear-scan LPM over the model for get_lpm, get_lpm_prefix, get_lpm_mut after every step".into()],
            },
        ),
        "C03" => (
            mk("C03", &[3], vec!["C03", "C01:contents"], Weights::leftovers(), all_types(), budget(tier, (400, 4, 30), (1200, 16, 120)), false, false, nt_c03),
            Info {
                level: "exploration",
                rule: "non-trivial = history reaching >=3 live entries (value-less leftovers reported in classes.leftover_created); distinct by hash of the case",
                assumptions: vec![gen_note.into(), "after every step 11 traversals + 4 clones of partially consumed iterators are compared with the model's (net,len)-ordered sequence and polled 3 more times after None".into()],
            },
        ),
        "C04" => (
            mk("C04", &[4], vec!["C04"], Weights::full(), all_types(), budget(tier, (600, 4, 40), (1800, 16, 200)), false, false, nt_c04),
            Info {
                level: "exploration",
                rule: "non-trivial = history with >=2 different counter-affecting op kinds other than plain insert/remove, one of them on a handle path or a value-less node; distinct by hash of the case",
                assumptions: vec![gen_note.into(), "oracle: len() == iter().count() and is_empty() after every step, public API only".into()],
            },
        ),
        "C09" => (
            mk("C09", &[9], vec!["C09"], Weights::leftovers(), all_types(), budget(tier, (400, 4, 30), (1200, 16, 120)), true, false, nt_c09),
            Info {
                level: "exploration",
                rule: "non-trivial = history producing a query with >=2 covering entries; distinct by hash of the case",
                assumptions: vec![gen_note.into()],
            },
        ),
        "C10" => (
            mk("C10", &[10], vec!["C10"], Weights::full(), all_types(), budget(tier, (400, 4, 40), (1200, 16, 160)), true, false, nt_c10),
            Info {
                level: "exploration",
                rule: "non-trivial = history in which a selector covered a strict non-empty subset of the entries and a remove_children / non-constant retain removed a strict subset; distinct by hash of the case",
                assumptions: vec![gen_note.into()],
            },
        ),
        "C15" => (
            // "remove exactly reverts insert" / "shape of a map built from the surviving keys": an entry that
            // insert or remove did not actually add or take away is a C15 failure as well
            mk("C15", &[15], vec!["C15", "C01:contents", "C01:remove:return", "C01:insert:return", "C01:set.remove:return", "C01:set.insert:return"], if tier == "thorough" { Weights::full() } else { Weights::full() }, all_types(), budget(tier, (440, 4, 40), (1300, 16, 200)), false, false, nt_c15),
            Info {
                level: "exploration",
                rule: "non-trivial = history in which a removal collapsed a branch (node count dropped by >=2) or retain removed >=2 entries; distinct by hash of the case",
                assumptions: vec![gen_note.into()],
            },
        ),
        "C16" => (
            mk("C16", &[16], vec!["C16"], Weights::full(), all_types(), budget(tier, (440, 4, 40), (1300, 16, 200)), false, false, nt_c16),
            Info {
                level: "exploration",
                rule: "non-trivial = history with >=1 collapse and a later allocation; distinct by hash of the case",
                assumptions: vec![gen_note.into(), "arena, free list and links are read through the verif-hooks accessor".into()],
            },
        ),
        "C18" => (
            mk("C18", &[18], vec!["C18"], Weights::full(), host_types(), budget(tier, (520, 4, 40), (1500, 16, 160)), false, false, nt_c18),
            Info {
                level: "exploration",
                rule: "non-trivial = history in which a stored key was re-inserted (another representation) and a value-only access happened; distinct by hash of the case",
                assumptions: vec![gen_note.into()],
            },
        ),
        "C13" => (
            mk("C13", &[13], vec!["C13"], {
                let mut w = Weights::full();
                w.get_mut = 6; w.lpm_mut = 6; w.iter_mut = 8; w.children_mut = 8; w.view_write = 8; w.view_iter = 10; w.setop = 14; w.insert = 40;
                w
            }, all_types(), budget(tier, (440, 4, 40), (1300, 16, 160)), false, false, nt_c13),
            Info {
                level: "exploration",
                rule: "non-trivial = history in which a mutable traversal yielded >=2 references while at least one entry was not yielded, or a *_mut set operation ran over two non-empty operands, and a value was written through a yielded reference; distinct by hash of the case",
                assumptions: vec![gen_note.into(), "each mutable traversal is compared with its read-only twin taken immediately before; all yielded references are collected first (alive simultaneously) and then written; afterwards contents, key set, len(), walked shape and get/get_lpm/view_at/values are compared".into()],
            },
        ),
        "C20" => (
            mk("C20", &[20, 4], vec!["C20"], Weights::full(), all_types(), budget(tier, (520, 4, 40), (1500, 16, 200)), false, true, nt_c20),
            Info {
                level: "exploration",
                rule: "non-trivial = history with >=1 boundary-length prefix and >=1 handle-level sequence of >=2 calls; distinct by hash of the case",
                assumptions: vec![gen_note.into()],
            },
        ),
        "C11" => {
            let mut s = mk("C11", &[11], vec!["C11"], Weights::full(), all_types(), budget(tier, (700, 8, 30), (4000, 16, 100)), true, false, nt_sub);
            s.post = Post::C11;
            (
                s,
                Info {
                    level: "exploration",
                    rule: "one evaluation = one generated history whose final state (both maps) is checked for every query of the query set (all 511 prefixes on the 8-bit type): view_at/view_mut_at and, recursively, every view reachable by left/right/split, plus view_at/view_mut_at called on that view for up to 8 queries below it; non-trivial = (state, q) where the view is virtual, sits at a value-less node or has >=4 reachable sub-views (at most 48 counted per state); distinct by (key set, q)",
                    assumptions: vec![gen_note.into(), "iff-direction (view exists iff it holds an entry) is only asserted while the history used insert-class ops, remove, retain, clear".into()],
                },
            )
        }
        "C12" => {
            let mut s = mk("C12", &[12], vec!["C12"], Weights::full(), all_types(), budget(tier, (500, 8, 24), (3000, 16, 60)), true, false, nt_sub);
            s.post = Post::C12;
            s.max_uni = 10;
            (
                s,
                Info {
                    level: "exploration",
                    rule: "one evaluation = one (view, query) pair on the final state of a generated history: every view reachable by view_at/left/right (deduplicated by prefix) x every query of the query set, classified inside/equal/covering/disjoint; find, find_exact, find_lpm, view_at on views and (for a third of the pairs) the four mutable twins; non-trivial = view is not the whole map and q is not strictly inside it, or the view is virtual, or q inside selects a strict non-empty subset (at most 64 counted per state); distinct by (key set, view prefix, q)",
                    assumptions: vec![gen_note.into()],
                },
            )
        }
        _ => return None,
    };
    Some(r)
}

/// committed minimal reproductions of this property that must pass (fixed findings, killed mutants)
pub fn regression_replays(id: &str) -> Vec<String> {
    let known: Vec<String> = load_known().into_iter().filter(|k| k.status == "known").filter_map(|k| k.replay).collect();
    let mut v: Vec<String> = Vec::new();
    if let Ok(rd) = std::fs::read_dir(format!("{}/replays", crate::engine::verif_root())) {
        for e in rd.flatten() {
            let name = e.file_name().to_string_lossy().to_string();
            if name.starts_with(&format!("{id}-")) && name.ends_with(".json") && !known.iter().any(|k| k.ends_with(&name)) {
                v.push(format!("{}/replays/{name}", crate::engine::verif_root()));
            }
        }
    }
    v.sort();
    v
}

pub enum Part {
    Hist(HistSpec),
    Pair(PairSpec),
    C17,
    C19,
    C14,
    Bfs(crate::bfs::BfsSpec),
    Churn,
    /// coverage-guided libFuzzer campaign (thorough tier): (target, runs)
    Fuzz(&'static str, u64),
}

fn nt_ev(name: &'static str) -> fn(&Events) -> bool {
    match name {
        "c05" => |e| ev_has(e, "c05_nontrivial"),
        "c06" => |e| ev_has(e, "c06_nontrivial") || ev_has(e, "c06_disjoint_views_of_one_map"),
        "c07" => |e| ev_has(e, "c07_difference_strict") || ev_has(e, "c07_removed_by_shorter_cover"),
        "c08" => |e| ev_has(e, "c08_interesting_annotation"),
        "c13p" => |e| ev_has(e, "both_nonempty"),
        _ => |_| false,
    }
}

fn pair_spec(id: &'static str, focus: &[u32], accept: Vec<&'static str>, tier: &str, nt: fn(&Events) -> bool) -> PairSpec {
    let (cases, shards, max_ops) = if tier == "thorough" { (5000, 16, 70) } else { (1200, 4, 50) };
    PairSpec {
        id,
        focus: Focus::of(focus),
        accept,
        types: all_types(),
        cases,
        shards,
        max_ops,
        nontrivial: nt,
        panic_ops: match id {
            "C05" => vec!["union", "union_mut"],
            "C06" => vec!["intersection", "intersection_mut"],
            "C07" => vec!["difference", "difference_mut", "covering_difference", "covering_difference_mut"],
            "C08" => vec!["union", "difference", "difference_mut"],
            "C13" => vec!["union_mut", "intersection_mut", "difference_mut", "covering_difference_mut"],
            _ => vec![],
        },
    }
}

const PAIR_NOTE: &str = "one evaluation = one generated pair of views: two maps built by generated histories (shapes contain value-less leftovers; value types u64 and a String newtype), or one map used twice, or a map against a PrefixSet; each operand is reached by a generated navigation program over view/view_at/find/find_exact/find_lpm/left/right; the entry set of each view is computed from the model and cross-checked against view.iter() (mismatches are discarded and counted, they belong to C11/C12)";

pub fn parts(id: &str, tier: &str) -> Option<(Vec<Part>, Info)> {
    if let Some((spec, info)) = hist_spec(id, tier) {
        let mut v = vec![];
        if id == "C15" || id == "C16" {
            let mut s2 = spec.clone();
            s2.weights = Weights::canonical();
            s2.label = if id == "C15" { "C15canon" } else { "C16canon" };
            v.push(Part::Hist(spec));
            v.push(Part::Hist(s2));
        } else if id == "C10" {
            let mut s2 = spec.clone();
            s2.label = "C10retain";
            let mut w = Weights::canonical();
            w.insert = 60; w.retain = 30; w.remove = 4; w.entry = 6; w.clear = 0; w.from_iter = 0; w.collect = 0; w.clone_swap = 0;
            w.get_mut = 0; w.lpm_mut = 0; w.iter_mut = 0; w.children_mut = 0; w.view_write = 0; w.view_iter = 0;
            s2.weights = w;
            s2.max_uni = 20;
            s2.full_queries = false;
            s2.focus = Focus::of(&[10, 4]);
            s2.accept = vec!["C10", "C01:contents", "C04"];
            let mut s3 = s2.clone();
            s3.label = "C10bulk";
            s3.weights.remove_children = 25;
            s3.weights.keep_tree = 8;
            s3.weights.retain = 20;
            v.push(Part::Hist(spec));
            v.push(Part::Hist(s2));
            v.push(Part::Hist(s3));
        } else if id == "C20" {
            let mut s2 = spec.clone();
            s2.label = "C20inject";
            s2.post = Post::C20;
            s2.focus = Focus::of(&[20]);
            s2.max_ops = s2.max_ops.min(30);
            s2.cases = (s2.cases / 3).max(20);
            s2.nontrivial = |e| ev_has(e, "c20_inject_after_rejection");
            v.push(Part::Hist(spec));
            v.push(Part::Hist(s2));
        } else if id == "C13" {
            v.push(Part::Hist(spec));
            v.push(Part::Pair(pair_spec("C13", &[13], vec!["C13"], tier, nt_ev("c13p"))));
        } else if id == "C18" {
            v.push(Part::Hist(spec));
            let mut p = pair_spec("C18", &[5, 6, 7, 8, 18], vec!["C18"], tier, |e| ev_has(e, "both_nonempty"));
            p.types = host_types();
            v.push(Part::Pair(p));
        } else {
            v.push(Part::Hist(spec));
        }
        if id == "C16" {
            v.push(Part::Churn);
        }
        if matches!(id, "C11" | "C12") {
            // deep / wide tries for the view checks (few cases: every view x every query is quadratic)
            if let Some(Part::Hist(first)) = v.first() {
                let mut big = first.clone();
                big.label = if id == "C11" { "C11big" } else { "C12big" };
                big.max_uni = 60;
                big.min_uni = 30;
                big.min_ops = 60;
                big.max_ops = 140;
                big.cases = if tier == "thorough" { 40 } else { if id == "C11" { 10 } else { 5 } };
                big.shards = if tier == "thorough" { 16 } else { 2 };
                big.full_queries = false;
                big.weights.insert = 140;
                big.weights.clear = 0;
                big.weights.from_iter = 0;
                big.weights.remove_children = 1;
                big.weights.retain = 1;
                v.push(Part::Hist(big));
            }
        }
        if matches!(id, "C01" | "C02" | "C03" | "C04" | "C09" | "C10" | "C15" | "C16" | "C18" | "C20") {
            // large universes and long histories: deep tries, many entries, long free lists
            if let Some(Part::Hist(first)) = v.first() {
                let mut big = first.clone();
                big.label = match id {
                    "C01" => "C01big", "C02" => "C02big", "C03" => "C03big", "C04" => "C04big", "C09" => "C09big",
                    "C10" => "C10big", "C15" => "C15big", "C16" => "C16big", "C18" => "C18big", _ => "C20big",
                };
                big.max_uni = 72;
                big.min_uni = 40;
                big.min_ops = 80;
                big.max_ops = if tier == "thorough" { 400 } else { 200 };
                big.cases = if tier == "thorough" { 120 } else { 60 };
                big.shards = if tier == "thorough" { 16 } else { 4 };
                big.full_queries = false;
                big.weights.insert = 160;
                big.weights.entry += 10;
                big.weights.remove_children = big.weights.remove_children.min(1);
                big.weights.retain = big.weights.retain.min(1);
                big.weights.clear = 0;
                big.weights.from_iter = 0;
                big.weights.b_share = big.weights.b_share.min(10);
                v.push(Part::Hist(big));
            }
            // scale: hundreds of entries (counter widths, long free lists, big sub-tries under one selector)
            if let Some(Part::Hist(first)) = v.first() {
                let mut sc = first.clone();
                sc.label = match id {
                    "C01" => "C01scale", "C02" => "C02scale", "C03" => "C03scale", "C04" => "C04scale", "C09" => "C09scale",
                    "C10" => "C10scale", "C15" => "C15scale", "C16" => "C16scale", "C18" => "C18scale", _ => "C20scale",
                };
                sc.scale = true;
                sc.max_ops = 16;
                sc.cases = if tier == "thorough" { 60 } else { 14 };
                sc.shards = if tier == "thorough" { 16 } else { 2 };
                sc.full_queries = false;
                sc.post = Post::None;
                sc.weights.remove_children += 12;
                sc.weights.retain += 8;
                sc.weights.clear = 1;
                sc.weights.from_iter = 0;
                sc.weights.b_share = 20;
                v.push(Part::Hist(sc));
            }
        }
        if id == "C01" && tier == "thorough" {
            v.push(Part::Fuzz("ops", 25_000));
        }
        if matches!(id, "C01" | "C02" | "C03" | "C04" | "C09" | "C10" | "C15" | "C16" | "C20") {
            // engine 2: bounded-exhaustive exploration on (u8,u8) with prefix lengths <= w
            let first = match v.first() {
                Some(Part::Hist(f)) => Some(f.clone()),
                _ => None,
            };
            if let Some(first) = first {
                let mk_bfs = |maxlen: u8, max_depth: usize, state_cap: usize, canonical_only: bool, full: bool| crate::bfs::BfsSpec {
                    id: first.id,
                    focus: first.focus,
                    accept: first.accept.clone(),
                    maxlen,
                    max_depth,
                    state_cap,
                    full_queries: full,
                    canonical_only,
                    panic_ops: first.panic_ops.clone(),
                };
                if tier == "thorough" {
                    v.push(Part::Bfs(mk_bfs(2, 1000, 2_000_000, false, true)));
                    v.push(Part::Bfs(mk_bfs(3, 1000, 60_000, true, false)));
                    v.push(Part::Bfs(mk_bfs(3, 1000, 120_000, false, false)));
                } else {
                    v.push(Part::Bfs(mk_bfs(2, 1000, 2_000_000, false, false)));
                    v.push(Part::Bfs(mk_bfs(3, 4, 12_000, id == "C15" || id == "C16", false)));
                }
            }
        }
        if matches!(id, "C01" | "C02" | "C03" | "C04" | "C09" | "C10" | "C15" | "C16" | "C18" | "C20") {
            // the same generated histories through the PrefixSet API
            if let Some(Part::Hist(first)) = v.first() {
                let mut s = first.clone();
                s.set_mode = true;
                s.label = match id {
                    "C01" => "C01set", "C02" => "C02set", "C03" => "C03set", "C04" => "C04set",
                    "C09" => "C09set", "C10" => "C10set", "C15" => "C15set", "C16" => "C16set", "C18" => "C18set", _ => "C20set",
                };
                s.cases = (s.cases / 2).max(20);
                s.post = Post::None;
                s.nontrivial = |e| ev_has(e, "live_ge3") && ev_has(e, "removed_hit");
                s.panic_ops.push("set.*");
                v.push(Part::Hist(s));
            }
        }
        return Some((v, info));
    }
    let info = |rule: &'static str| Info {
        level: "exploration",
        rule,
        assumptions: vec![PAIR_NOTE.into()],
    };
    match id {
        "C05" => Some((
            if tier == "thorough" {
                vec![Part::Pair(pair_spec("C05", &[5], vec!["C05"], tier, nt_ev("c05"))), Part::Fuzz("setops", 25_000)]
            } else {
                vec![Part::Pair(pair_spec("C05", &[5], vec!["C05"], tier, nt_ev("c05")))]
            },
            info("non-trivial = both operands non-empty and (roots differ, or a root is virtual, or an operand tree contains a value-less leftover); distinct by hash of the case; classes.* give the histogram of relative root positions and root kinds"),
        )),
        "C06" => Some((
            vec![Part::Pair(pair_spec("C06", &[6], vec!["C06"], tier, nt_ev("c06")))],
            info("non-trivial = expected intersection non-empty while some key of one operand is absent from the other, or two disjoint sub-views of one map; distinct by hash of the case"),
        )),
        "C07" => Some((
            vec![Part::Pair(pair_spec("C07", &[7], vec!["C07"], tier, nt_ev("c07")))],
            info("non-trivial = difference is a strict non-empty subset of the left entries, or an entry is removed from the covering difference only because of a strictly shorter covering prefix; distinct by hash of the case"),
        )),
        "C08" => Some((
            vec![Part::Pair(pair_spec("C08", &[8], vec!["C08"], tier, nt_ev("c08")))],
            info("non-trivial = case containing an item whose expected annotation is Some with a strictly shorter prefix, or None while the other view is non-empty; distinct by hash of the case"),
        )),
        "C14" => Some((
            vec![Part::C14],
            Info {
                level: "exploration",
                rule: "runtime part: one evaluation = a generated state, a generated plan that takes a whole-map TrieViewMut apart (split/left/right/find/find_lpm) into up to 8 simultaneously live views, an optional *_mut set operation between two of them, and per-view worker programs; (1) all &mut handed out while the borrow is alive must have pairwise distinct addresses and keys, each view hands out exactly the entries under its prefix, live views never overlap; (2) running the workers on std::thread::scope threads gives the same final map as running them sequentially on a clone. Compile-time part: generated client programs (see coverage.programs). Non-trivial = case with >=3 simultaneously live views or >=8 live references; distinct by hash of the case",
                assumptions: vec!["native threads do not control the schedule; the Miri runs of the thorough tier do (seeded scheduler, data-race and aliasing detection) on small cases".into(), "the program grammar covers the public constructors of mutable/shared handles up to two handles per conflict".into()],
            },
        )),
        "C17" => Some((
            vec![Part::C17],
            Info {
                level: "exploration",
                rule: "exhaustive over the 8-bit tuple type (all 2304 (address,length) values incl. host bits, all 2304^2 ordered pairs, all bit indices 0..=255, triples over lengths <= 4), proptest-generated (a, b, c) triples with a controlled number of shared leading bits and boundary lengths for all 14 types; non-trivial = pair with 0 < lcp < min(len) or a boundary length (0, 1, W-1, W); exhaustive pairs are distinct by construction and counted exactly, sampled ones by hash of the case",
                assumptions: vec!["oracle: u128 bit arithmetic in the harness (covers / lcp / bit), plus a differential against the crate's default trait methods through a newtype that only forwards the three required methods".into(), "`exhaustive: true` refers to the (u8,u8) sub-space only".into()],
            },
        )),
        "C19" => Some((
            vec![Part::C19],
            Info {
                level: "exploration",
                rule: "one evaluation = a generated state X and a derived state Y (permuted rebuild, leftover debris, strict prefix / suffix / sub-sequence, empty, one value changed, host bits of one stored prefix changed, independent history, clone) plus a rebuilt Z for transitivity; ==, != on maps and sets, clone independence in both directions under a generated operation suffix, collect and serde_json round-trips; non-trivial = cases in the classes same-entries-different-shape, strict prefix/suffix, one value differs, host-bit-only difference, empty vs non-empty; distinct by hash of the case",
                assumptions: vec!["oracle for ==: equality of the two Vec<(P, T)> entry sequences under the types' own PartialEq".into(), "serde round-trips: maps on ipnet/ipnetwork key types (keys serialise as strings), sets additionally on the integer tuple types up to 64 bit; cidr types have no serde support enabled in this build".into()],
            },
        )),
        _ => None,
    }
}

pub fn run_check(id: &str, tier: &str, seed: u64, replay: Option<&str>) -> i32 {
    let t0 = Instant::now();
    if replay.is_none() {
        // regression tier: saved reproductions first
        for path in regression_replays(id) {
            let code = run_check(id, tier, seed, Some(&path));
            if code != 0 {
                return code;
            }
        }
    }
    let Some((parts, info)) = parts(id, tier) else {
        eprintln!("unknown property id {id}");
        return 2;
    };
    let mut o = Outcome::default();
    match replay {
        Some(p) => {
            // the replay file says which part produced it
            let txt = std::fs::read_to_string(p).unwrap_or_default();
            let is_pair = txt.contains("\"nav_a\"") && txt.contains("\"mode\"");
            let is_churn = txt.contains("\"perm_seed\"") && txt.contains("\"phases\"");
            // the `check` label of the replay file says which history part produced it
            let label: String = serde_json::from_str::<serde_json::Value>(&txt).ok().and_then(|v| v["check"].as_str().map(|s| s.to_string())).unwrap_or_default();
            let best_hist: Option<&'static str> = parts
                .iter()
                .filter_map(|p| match p {
                    Part::Hist(s) if label.starts_with(&format!("{}-", s.label)) => Some(s.label),
                    _ => None,
                })
                .max_by_key(|l| l.len());
            for part in &parts {
                match part {
                    Part::Hist(s) if best_hist.is_some() && best_hist != Some(s.label) => {}
                    Part::Churn if txt.contains("\"perm_seed\"") && txt.contains("\"phases\"") => {
                        o = crate::c16::replay_churn(p);
                        break;
                    }
                    Part::C17 => {
                        o = crate::c17::replay_c17(p);
                        break;
                    }
                    Part::C19 => {
                        o = crate::c19::replay_c19(p);
                        break;
                    }
                    Part::C14 => {
                        o = if txt.contains("\"krate\"") {
                            crate::progs::replay_program(p)
                        } else if txt.contains("\"miri_seed\"") {
                            crate::miri::replay_miri(p)
                        } else {
                            crate::c14::replay_c14(p)
                        };
                        break;
                    }
                    Part::Hist(s) if !is_pair && !is_churn => {
                        o = replay_hist(s, p);
                        break;
                    }
                    Part::Pair(s) if is_pair => {
                        o = replay_pair(s, p);
                        break;
                    }
                    _ => {}
                }
            }
            o.is_replay = true;
        }
        None => {
            let mut parts_desc: Vec<String> = Vec::new();
            for part in &parts {
                parts_desc.push(match part {
                    Part::Hist(s) => format!("proptest histories `{}`{}: {} prefix types x {} shards x {} cases, <= {} operations, focus on property oracles {:?}{}", s.label, if s.set_mode { " through the PrefixSet API" } else { "" }, s.types.len(), s.shards, s.cases, s.max_ops, (1..=20).filter(|i| s.focus.has(*i)).collect::<Vec<_>>(), match s.post { Post::None => "", Post::C11 => ", final state: all views for all queries", Post::C12 => ", final state: every view x every query", Post::C20 => ", final state: panic injected at every callback invocation" }),
                    Part::Pair(s) => format!("proptest view pairs `{}`: {} prefix types x {} shards x {} cases (plus a 7x7 sweep over root pairs per case)", s.id, s.types.len(), s.shards, s.cases),
                    Part::Bfs(b) => format!("bounded-exhaustive BFS on (u8,u8), prefix lengths <= {}, depth <= {}, state cap {}{}", b.maxlen, b.max_depth, b.state_cap, if b.canonical_only { ", canonical sub-alphabet" } else { "" }),
                    Part::Churn => "proptest churn cases (working set inserted and removed for many phases)".to_string(),
                    Part::Fuzz(t, n) => format!("libFuzzer campaign on target `{t}`, {n} runs"),
                    Part::C17 => "exhaustive (u8,u8) enumeration + proptest triples on 14 types".to_string(),
                    Part::C19 => "proptest state pairs/triples".to_string(),
                    Part::C14 => "proptest split forests + threads; generated client programs through rustc; Miri (thorough)".to_string(),
                });
                let o2 = match part {
                    Part::Hist(s) => run_hist_check(s, seed),
                    Part::Pair(s) => run_pair_check(s, seed),
                    Part::Bfs(b) => crate::bfs::run_bfs(b),
                    Part::Churn => crate::c16::run_churn_check(tier, seed),
                    Part::Fuzz(target, runs) => crate::fuzz_entry::run_campaign(id, target, *runs, seed),
                    Part::C17 => crate::c17::run_c17(tier, seed),
                    Part::C19 => crate::c19::run_c19_check(tier, seed),
                    Part::C14 => {
                        let mut o = crate::c14::run_c14_runtime(tier, seed);
                        if o.violation.is_none() && o.harness_bug.is_none() {
                            o.merge(crate::progs::run_programs(tier, seed, None));
                        }
                        if tier == "thorough" && o.violation.is_none() && o.harness_bug.is_none() {
                            o.merge(crate::miri::run_miri(seed, 8, 12, &[1, 2, 3]));
                        }
                        o
                    }
                };
                o.merge(o2);
                if o.violation.is_some() {
                    break;
                }
            }
            o.extra.insert("parts".into(), serde_json::to_value(&parts_desc).unwrap());
            // release-profile twin (no overflow checks, no debug assertions) for the properties that
            // speak about "debug and release builds"
            let is_child = std::env::var("PTV_PLAIN_CHILD").is_ok();
            if tier == "thorough" && matches!(id, "C17" | "C20") && !is_child && o.violation.is_none() && o.harness_bug.is_none() {
                if let Ok(bin) = std::env::var("PTV_PLAIN_BIN") {
                    match std::process::Command::new(&bin).args([id, tier, "--seed", &seed.to_string()]).env("PTV_PLAIN_CHILD", "1").output() {
                        Ok(out) => {
                            let so = String::from_utf8_lossy(&out.stdout).to_string();
                            if let Some(l) = so.lines().find_map(|l| l.strip_prefix("PLAIN-RESULT ")) {
                                if let Ok(v) = serde_json::from_str::<serde_json::Value>(l) {
                                    o.evaluations += v["evaluations"].as_u64().unwrap_or(0);
                                    o.counted_nontrivial += v["nontrivial"].as_u64().unwrap_or(0);
                                    o.extra.insert("plain_profile".into(), v.clone());
                                    if let Some(vi) = v.get("violation").filter(|x| !x.is_null()) {
                                        o.violation = Some(Violation {
                                            prop: vi["prop"].as_str().unwrap_or(id).to_string(),
                                            sig: format!("{} (release profile, wrapping arithmetic)", vi["sig"].as_str().unwrap_or("")),
                                            msg: vi["msg"].as_str().unwrap_or("").to_string(),
                                            replay: vi["replay"].as_str().unwrap_or("").to_string(),
                                        });
                                    }
                                    if let Some(hb) = v["harness_bug"].as_str() {
                                        o.harness_bug = Some(format!("release-profile child: {hb}"));
                                    }
                                }
                            } else {
                                o.harness_bug = Some(format!("release-profile child produced no result (status {:?}): {}", out.status.code(), so.lines().rev().take(5).collect::<Vec<_>>().join(" | ")));
                            }
                        }
                        Err(e) => o.harness_bug = Some(format!("cannot run release-profile child {bin}: {e}")),
                    }
                } else {
                    o.extra.insert("plain_profile".into(), "not run (PTV_PLAIN_BIN unset)".into());
                }
            }
            if is_child {
                let v = serde_json::json!({
                    "evaluations": o.evaluations.max(o.sub_evaluations),
                    "nontrivial": o.nontrivial.len() as u64 + o.counted_nontrivial,
                    "violation": o.violation.as_ref().map(|v| serde_json::json!({"prop": v.prop, "sig": v.sig, "msg": v.msg, "replay": v.replay})),
                    "harness_bug": o.harness_bug,
                    "profile": "plain: opt-level 2, overflow-checks off, debug-assertions off",
                });
                println!("PLAIN-RESULT {v}");
                return if o.violation.is_some() { 1 } else { 0 };
            }
            write_evidence(
                &Report {
                    id,
                    tier,
                    seed,
                    level: info.level,
                    rule: info.rule,
                    assumptions: info.assumptions,
                    wall_s: t0.elapsed().as_secs_f64(),
                },
                &o,
            );
        }
    }
    conclude(id, &o)
}
