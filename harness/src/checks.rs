//! Registry: property id -> check.

use crate::engine::*;
use crate::env::Focus;
use crate::gen::Weights;
use crate::hist::*;
use crate::tp::ALL_TYPES;
use std::time::Instant;

pub struct Info {
    pub level: &'static str,
    pub rule: &'static str,
    pub assumptions: Vec<String>,
}

fn distinct_count(e: &Events, names: &[&str]) -> usize {
    names.iter().filter(|n| ev_has(e, n)).count()
}

fn other_ops(e: &Events) -> u64 {
    let total = e.get("ops_total").copied().unwrap_or(0);
    let _ = total;
    let mut n = 0;
    for (k, v) in e {
        if matches!(
            *k,
            "remove_keep_tree" | "remove_children" | "retain" | "clear" | "entry.insert" | "entry.or_insert" | "entry.or_insert_with"
                | "entry.or_default" | "entry.and_modify.or_insert" | "entry.match" | "get_mut" | "get_lpm_mut" | "iter_mut"
                | "values_mut" | "children_mut" | "view_mut.set" | "view_mut.remove" | "view_mut.value_mut" | "view_mut.iter_mut"
                | "union_mut" | "intersection_mut" | "difference_mut" | "covering_difference_mut" | "collect" | "from_iter" | "clone_swap"
        ) {
            n += v;
        }
    }
    n
}

fn nt_c01(e: &Events) -> bool {
    ev_has(e, "live_ge3") && ev_has(e, "removed_hit") && ev_has(e, "insert_after_remove") && other_ops(e) > 0
}
fn nt_c02(e: &Events) -> bool {
    ev_has(e, "lpm_nested_cover") && ev_has(e, "leftover_created")
}
fn nt_c03(e: &Events) -> bool {
    ev_has(e, "live_ge3")
}
fn nt_c04(e: &Events) -> bool {
    distinct_count(
        e,
        &[
            "keep_tree_hit", "remove_children_hit", "retain_removed", "clear", "occupied_remove", "vacant_insert",
            "view_set_on_valueless", "view_remove_hit", "collect", "clone_swap", "from_iter", "occupied_insert",
        ],
    ) >= 2
        && (ev_has(e, "occupied_remove") || ev_has(e, "view_set_on_valueless") || ev_has(e, "view_remove_hit") || ev_has(e, "vacant_insert"))
}
fn nt_c09(e: &Events) -> bool {
    ev_has(e, "cover_ge2")
}
fn nt_c10(e: &Events) -> bool {
    ev_has(e, "children_strict_subset") && (ev_has(e, "remove_children_strict_subset") || ev_has(e, "retain_nonconstant"))
}
fn nt_c15(e: &Events) -> bool {
    ev_has(e, "collapse") || ev_has(e, "retain_removed_ge2")
}
fn nt_c16(e: &Events) -> bool {
    ev_has(e, "collapse") && ev_has(e, "insert_after_remove")
}
fn nt_c18(e: &Events) -> bool {
    ev_has(e, "insert_existing") && (ev_has(e, "or_insert_on_occupied") || ev_has(e, "write_through_ref"))
}
fn nt_c20(e: &Events) -> bool {
    ev_has(e, "boundary_len") && ev_has(e, "handle_seq_ge2")
}

fn nt_sub(_e: &Events) -> bool {
    false
}

fn all_types() -> Vec<&'static str> {
    ALL_TYPES.to_vec()
}
fn host_types() -> Vec<&'static str> {
    ALL_TYPES.iter().copied().filter(|t| *t != "cidr4" && *t != "cidr6").collect()
}

/// (cases per type-shard, shards, max_ops)
fn budget(tier: &str, quick: (u32, u32, usize), thorough: (u32, u32, usize)) -> (u32, u32, usize) {
    if tier == "thorough" {
        thorough
    } else {
        quick
    }
}

pub fn hist_spec(id: &str, tier: &str) -> Option<(HistSpec, Info)> {
    let mk = |id: &'static str,
              focus: &[u32],
              accept: Vec<&'static str>,
              weights: Weights,
              types: Vec<&'static str>,
              b: (u32, u32, usize),
              full_queries: bool,
              stop_on_taint: bool,
              nt: fn(&Events) -> bool| HistSpec {
        id,
        label: id,
        focus: Focus::of(focus),
        accept,
        weights,
        types,
        max_uni: 14,
        max_ops: b.2,
        cases: b.0,
        shards: b.1,
        full_queries,
        stop_on_taint,
        nontrivial: nt,
        post: Post::None,
    };
    let gen_note = "cases are proptest-generated (universe by random walk over related prefixes, operation list over the complete public mutator alphabet, two maps with different value types); every case is executed against the crate built from /repo's working tree and a BTreeMap model in lock-step";
    let r = match id {
        "C01" => (
            mk("C01", &[1], vec!["C01", "C03"], Weights::full(), all_types(), budget(tier, (260, 1, 40), (1500, 16, 200)), true, false, nt_c01),
            Info {
                level: "exploration",
                rule: "non-trivial = history with >=3 keys live at some point, a removal-class op that hit a present key, an insert-class op after it and >=1 op outside {insert, remove}; distinct by hash of the serialized case",
                assumptions: vec![gen_note.into(), "return value of every mutating call and all exact-match observers (get, get_mut, get_key_value, contains_key, entry.get/key) are compared after every step for the query set (all 511 prefixes on the 8-bit type for histories <= 30 ops)".into()],
            },
        ),
        "C02" => (
            mk("C02", &[2], vec!["C02"], Weights::leftovers(), all_types(), budget(tier, (200, 1, 30), (1200, 16, 120)), true, false, nt_c02),
            Info {
                level: "exploration",
                rule: "non-trivial = history that left a value-less leftover node and produced a query with >=2 nested covering entries whose LPM is strictly shorter than the query; distinct by hash of the case",
                assumptions: vec![gen_note.into(), "oracle: linear-scan LPM over the model for get_lpm, get_lpm_prefix, get_lpm_mut after every step".into()],
            },
        ),
        "C03" => (
            mk("C03", &[3], vec!["C03"], Weights::leftovers(), all_types(), budget(tier, (200, 1, 30), (1200, 16, 120)), false, false, nt_c03),
            Info {
                level: "exploration",
                rule: "non-trivial = history reaching >=3 live entries (value-less leftovers reported in classes.leftover_created); distinct by hash of the case",
                assumptions: vec![gen_note.into(), "after every step 11 traversals + 4 clones of partially consumed iterators are compared with the model's (net,len)-ordered sequence and polled 3 more times after None".into()],
            },
        ),
        "C04" => (
            mk("C04", &[4], vec!["C04"], Weights::full(), all_types(), budget(tier, (300, 1, 40), (1800, 16, 200)), false, false, nt_c04),
            Info {
                level: "exploration",
                rule: "non-trivial = history with >=2 different counter-affecting op kinds other than plain insert/remove, one of them on a handle path or a value-less node; distinct by hash of the case",
                assumptions: vec![gen_note.into(), "oracle: len() == iter().count() and is_empty() after every step, public API only".into()],
            },
        ),
        "C09" => (
            mk("C09", &[9], vec!["C09"], Weights::leftovers(), all_types(), budget(tier, (200, 1, 30), (1200, 16, 120)), true, false, nt_c09),
            Info {
                level: "exploration",
                rule: "non-trivial = history producing a query with >=2 covering entries; distinct by hash of the case",
                assumptions: vec![gen_note.into()],
            },
        ),
        "C10" => (
            mk("C10", &[10], vec!["C10"], Weights::full(), all_types(), budget(tier, (200, 1, 40), (1200, 16, 160)), true, false, nt_c10),
            Info {
                level: "exploration",
                rule: "non-trivial = history in which a selector covered a strict non-empty subset of the entries and a remove_children / non-constant retain removed a strict subset; distinct by hash of the case",
                assumptions: vec![gen_note.into()],
            },
        ),
        "C15" => (
            mk("C15", &[15], vec!["C15"], if tier == "thorough" { Weights::full() } else { Weights::full() }, all_types(), budget(tier, (220, 1, 40), (1300, 16, 200)), false, false, nt_c15),
            Info {
                level: "exploration",
                rule: "non-trivial = history in which a removal collapsed a branch (node count dropped by >=2) or retain removed >=2 entries; distinct by hash of the case",
                assumptions: vec![gen_note.into()],
            },
        ),
        "C16" => (
            mk("C16", &[16], vec!["C16"], Weights::full(), all_types(), budget(tier, (220, 1, 40), (1300, 16, 200)), false, false, nt_c16),
            Info {
                level: "exploration",
                rule: "non-trivial = history with >=1 collapse and a later allocation; distinct by hash of the case",
                assumptions: vec![gen_note.into(), "arena, free list and links are read through the verif-hooks accessor".into()],
            },
        ),
        "C18" => (
            mk("C18", &[18], vec!["C18"], Weights::full(), host_types(), budget(tier, (260, 1, 40), (1500, 16, 160)), false, false, nt_c18),
            Info {
                level: "exploration",
                rule: "non-trivial = history in which a stored key was re-inserted (another representation) and a value-only access happened; distinct by hash of the case",
                assumptions: vec![gen_note.into()],
            },
        ),
        "C20" => (
            mk("C20", &[20, 4], vec!["C20"], Weights::full(), all_types(), budget(tier, (260, 1, 40), (1500, 16, 200)), false, true, nt_c20),
            Info {
                level: "exploration",
                rule: "non-trivial = history with >=1 boundary-length prefix and >=1 handle-level sequence of >=2 calls; distinct by hash of the case",
                assumptions: vec![gen_note.into()],
            },
        ),
        "C11" => {
            let mut s = mk("C11", &[11], vec!["C11"], Weights::full(), all_types(), budget(tier, (120, 1, 30), (600, 16, 100)), true, false, nt_sub);
            s.post = Post::C11;
            (
                s,
                Info {
                    level: "exploration",
                    rule: "one evaluation = one generated history whose final state (both maps) is checked for every query of the query set (all 511 prefixes on the 8-bit type): view_at/view_mut_at and, recursively, every view reachable by left/right/split; non-trivial = (state, q) where the view is virtual, sits at a value-less node or has >=4 reachable sub-views (at most 48 counted per state); distinct by (key set, q)",
                    assumptions: vec![gen_note.into(), "iff-direction (view exists iff it holds an entry) is only asserted while the history used insert-class ops, remove, retain, clear".into()],
                },
            )
        }
        "C12" => {
            let mut s = mk("C12", &[12], vec!["C12"], Weights::full(), all_types(), budget(tier, (60, 1, 24), (300, 16, 60)), true, false, nt_sub);
            s.post = Post::C12;
            s.max_uni = 10;
            (
                s,
                Info {
                    level: "exploration",
                    rule: "one evaluation = one (view, query) pair on the final state of a generated history: every view reachable by view_at/left/right (deduplicated by prefix) x every query of the query set, classified inside/equal/covering/disjoint; find, find_exact, find_lpm, view_at on views and (for a third of the pairs) the four mutable twins; non-trivial = view is not the whole map and q is not strictly inside it, or the view is virtual, or q inside selects a strict non-empty subset (at most 64 counted per state); distinct by (key set, view prefix, q)",
                    assumptions: vec![gen_note.into()],
                },
            )
        }
        _ => return None,
    };
    Some(r)
}

/// committed minimal reproductions of this property that must pass (fixed findings, killed mutants)
pub fn regression_replays(id: &str) -> Vec<String> {
    let known: Vec<String> = load_known().into_iter().filter(|k| k.status == "known").filter_map(|k| k.replay).collect();
    let mut v: Vec<String> = Vec::new();
    if let Ok(rd) = std::fs::read_dir(format!("{VERIF}/replays")) {
        for e in rd.flatten() {
            let name = e.file_name().to_string_lossy().to_string();
            if name.starts_with(&format!("{id}-")) && name.ends_with(".json") && !known.iter().any(|k| k.ends_with(&name)) {
                v.push(format!("{VERIF}/replays/{name}"));
            }
        }
    }
    v.sort();
    v
}

pub fn run_check(id: &str, tier: &str, seed: u64, replay: Option<&str>) -> i32 {
    let t0 = Instant::now();
    if replay.is_none() {
        // regression tier: saved reproductions first
        for path in regression_replays(id) {
            let code = run_check(id, tier, seed, Some(&path));
            if code != 0 {
                return code;
            }
        }
    }
    if let Some((mut spec, info)) = hist_spec(id, tier) {
        if id == "C15" {
            // half of the budget on the canonical sub-alphabet is added by a second spec below
        }
        let o = match replay {
            Some(p) => replay_hist(&spec, p),
            None => {
                let mut o = run_hist_check(&spec, seed);
                if o.violation.is_none() && (id == "C15" || id == "C16") {
                    spec.weights = Weights::canonical();
                    spec.label = if id == "C15" { "C15canon" } else { "C16canon" };
                    let o2 = run_hist_check(&spec, seed);
                    o.merge(o2);
                }
                o
            }
        };
        if replay.is_none() {
            write_evidence(
                &Report {
                    id,
                    tier,
                    seed,
                    level: info.level,
                    rule: info.rule,
                    assumptions: info.assumptions,
                    wall_s: t0.elapsed().as_secs_f64(),
                },
                &o,
            );
        }
        return conclude(id, &o);
    }
    eprintln!("unknown property id {id}");
    2
}
