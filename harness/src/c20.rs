//! C20 fault injection: a panic in every user callback invocation must leave the map valid.

use crate::engine::InjectedPanic;
use crate::ensure;
use crate::env::{fail, Env, Focus, Side, R};
use crate::interp::{eval_pred, run_history, World};
use crate::model::{key_of, mk, shape_wellformed, Key, Model, Raw};
use crate::observe::{check_arena, check_contents, check_len, shape_of};
use crate::ops::*;
use crate::tp::TP;
use prefix_trie::map::Entry;
use prefix_trie::PrefixMap;
use std::panic::{catch_unwind, AssertUnwindSafe};

/// Properties whose oracles describe the state of a map (as opposed to one accessor's behaviour).
pub const STATE_PROPS: [&str; 7] = ["C01", "C03", "C04", "C15", "C16", "C20", "HARNESS"];

fn is_injected(e: &Box<dyn std::any::Any + Send>) -> bool {
    e.downcast_ref::<InjectedPanic>().is_some()
}

fn crate_panic(env: &Env, what: &str) -> crate::env::Fail {
    let (file, line, msg) = crate::engine::take_last_panic();
    crate::env::Fail {
        prop: "C20",
        sig: format!("C20:panic:{what}"),
        msg: format!("state {}: `{what}` panicked at {file}:{line}: {msg} (not the injected panic)", env.step),
    }
}

/// After an unwinding callback: the map is well-formed, size-consistent, holds exactly `expect`,
/// and is still usable under the C01 oracle.
fn check_after<P: TP>(map: PrefixMap<P, u64>, expect: Model, canonical: bool, drift: i64, env: &mut Env, what: &str, suffix: &[Op]) -> R {
    let mut side: Side<P, u64> = Side::new("A");
    side.map = map;
    side.model = expect;
    side.canonical = canonical;
    side.drift = drift;
    side.peak_nodes = usize::MAX / 4;
    // "The map remains valid" is a statement about its state: entries, count, shape, arena, iteration,
    // termination. A failing oracle of another property (an accessor that is wrong on every map, panic
    // or not) is passed on unchanged, i.e. as a foreign failure that ends the case without an alarm.
    let tag = |f: crate::env::Fail| {
        if !STATE_PROPS.contains(&f.prop) {
            return f;
        }
        crate::env::Fail {
            prop: "C20",
            sig: format!("C20:after-callback-panic:{what}:{}", f.sig),
            msg: format!("after a panic injected into {what}: {}", f.msg),
        }
    };
    let s = shape_of(&side.map).map_err(tag)?;
    if let Err(e) = shape_wellformed(&s, P::W) {
        return fail("C20", &format!("C20:after-callback-panic:{what}:malformed"), format!("after a panic injected into {what}: {e} in {}", s.show()));
    }
    check_contents(&side, env).map_err(tag)?;
    check_len(&side, env).map_err(tag)?;
    match check_arena(&mut side, env) {
        // a slot that is merely lost (neither in the tree nor free) does not make the map ill-formed
        Err(f) if f.sig == "C16:slot-neither" || f.sig == "C16:arena-bound" => env.ev("c20_slot_leaked_by_unwinding_callback"),
        Err(f) => return Err(tag(f)),
        Ok(()) => {}
    }
    // still usable: a suffix of ordinary operations under the per-step oracles
    let mut w: World<P, u64, crate::env::SV> = World::new();
    w.a = side;
    let saved = (env.focus, env.step);
    env.focus = Focus::of(&[1, 4, 15]);
    let ops: Vec<Op> = suffix.iter().filter(|o| o.side() == Some(M::A)).cloned().collect();
    let r = catch_unwind(AssertUnwindSafe(|| run_history(&mut w, &ops, env)));
    env.focus = saved.0;
    env.step = saved.1;
    match r {
        Ok(Ok(())) => Ok(()),
        Ok(Err(f)) => Err(tag(f)),
        Err(_) => {
            let (file, line, msg) = crate::engine::take_last_panic();
            if w.a.drift != 0 && msg.contains("overflow") {
                return Ok(());
            }
            fail("C20", &format!("C20:after-callback-panic:{what}:later-panic"), format!("an ordinary operation after a panic injected into {what} panicked at {file}:{line}: {msg}"))
        }
    }
}

/// Enumerate every injection point on the state of side A.
pub fn inject_all<P: TP>(side: &Side<P, u64>, env: &mut Env, suffix: &[Op]) -> R {
    let before = side.model.clone();
    let n = before.len();
    let uni = env.uni.clone();
    let mut points = 0u64;
    // ---- retain: panic at every invocation index, with several predicates
    for pred in [Pred::HashBit(3), Pred::HashBit(7), Pred::Nothing, Pred::LenLe(128)] {
        for idx in 0..n {
            let mut map = side.map.clone();
            let mut calls = 0usize;
            let mut rejected: Vec<Key> = Vec::new();
            env.cur_op = "retain";
            let r = catch_unwind(AssertUnwindSafe(|| {
                map.retain(|p, v| {
                    if calls == idx {
                        std::panic::panic_any(InjectedPanic);
                    }
                    calls += 1;
                    let k = key_of(p);
                    let keep = eval_pred(&pred, &uni, P::W, k, *v);
                    if !keep {
                        rejected.push(k);
                    }
                    keep
                })
            }));
            match r {
                Ok(()) => {
                    return fail("C20", "C20:retain:predicate-not-called", format!("retain with {n} entries called its predicate fewer than {} times", idx + 1));
                }
                Err(e) if is_injected(&e) => {}
                Err(_) => return Err(crate_panic(env, "retain")),
            }
            let mut expect = before.clone();
            for k in &rejected {
                expect.remove(*k);
            }
            if !rejected.is_empty() {
                env.ev("c20_inject_after_rejection");
            }
            points += 1;
            check_after(map, expect, side.canonical, side.drift, env, "retain predicate", if idx % 4 == 0 { suffix } else { &[] })?;
        }
    }
    // ---- entry callbacks on every universe prefix (vacant, occupied, value-less node)
    let mut queries: Vec<Raw> = uni.clone();
    queries.extend(before.m.keys().map(|k| Raw { bits: k.net, len: k.len }));
    queries.truncate(24);
    for q in queries {
        let p: P = mk(q);
        let k = q.key();
        let present = before.get(k).is_some();
        for which in 0..3u8 {
            let mut map = side.map.clone();
            let name = ["or_insert_with closure", "VacantEntry::insert_with closure", "and_modify closure"][which as usize];
            env.cur_op = "entry";
            let pp = p.clone();
            let r = catch_unwind(AssertUnwindSafe(|| match which {
                0 => {
                    map.entry(pp).or_insert_with(|| std::panic::panic_any(InjectedPanic));
                }
                1 => {
                    if let Entry::Vacant(e) = map.entry(pp) {
                        e.insert_with(|| std::panic::panic_any(InjectedPanic));
                    }
                }
                _ => {
                    let _ = map.entry(pp).and_modify(|_| std::panic::panic_any(InjectedPanic));
                }
            }));
            let panicked = match r {
                Ok(()) => false,
                Err(e) if is_injected(&e) => true,
                Err(_) => return Err(crate_panic(env, name)),
            };
            let should = match which {
                0 | 1 => !present,
                _ => present,
            };
            ensure!(panicked == should, "C20", "C20:entry-callback:called", "{name} on {:?} (present: {present}) was {}called", k, if panicked { "" } else { "not " });
            if panicked {
                points += 1;
                env.ev(if present { "c20_inject_occupied" } else { "c20_inject_vacant" });
                // the map holds exactly what it held before the call
                check_after(map, before.clone(), side.canonical, side.drift, env, name, if points % 5 == 0 { suffix } else { &[] })?;
            }
        }
    }
    env.evn("c20_injection_points", points);
    env.cur_op = "";
    Ok(())
}
