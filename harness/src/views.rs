//! C11 / C12: what a view addresses, left/right/split, and searching from views.

use crate::ensure;
use crate::engine::fingerprint;
use crate::env::{fail, Env, Side, Val, R};
use crate::model::{covers, key_bit, key_of, mk, raw_of, Key, Model, Raw};
use crate::observe::shape_of;
use crate::tp::TP;
use prefix_trie::{AsView, AsViewMut, PrefixMap, TrieView, TrieViewMut};
use std::collections::BTreeSet;

type KV = Vec<(Key, u64)>;

fn entries_under(model: &Model, k: Key) -> KV {
    model.children(k).into_iter().map(|(k, s)| (k, s.value)).collect()
}

fn view_iter<P: TP, V: Val>(v: &TrieView<'_, P, V>, lim: usize) -> KV {
    v.iter().take(lim).map(|(p, x)| (key_of(p), x.id())).collect()
}

fn model_fp(model: &Model) -> u64 {
    fingerprint(&model.keys())
}

/// Everything C11 says about one immutable view (non-recursive part).
fn check_view_here<P: TP, V: Val>(v: &TrieView<'_, P, V>, model: &Model, env: &mut Env, what: &str) -> R<Key> {
    let step = env.step;
    let lim = 4 * model.len() + 64;
    let k = key_of(v.prefix());
    let want = entries_under(model, k);
    let got = view_iter(v, lim);
    ensure!(got == want, "C11", "C11:view.iter", "state {step}: {what}: view with prefix {:?} iterates {:?}, entries under that prefix are {:?}", k, got, want);
    let gk: Vec<Key> = v.keys().take(lim).map(|p| key_of(p)).collect();
    let gv: Vec<u64> = v.values().take(lim).map(|x| x.id()).collect();
    ensure!(gk == want.iter().map(|x| x.0).collect::<Vec<_>>(), "C11", "C11:view.keys", "state {step}: {what}: keys() of view {:?} = {:?}", k, gk);
    ensure!(gv == want.iter().map(|x| x.1).collect::<Vec<_>>(), "C11", "C11:view.values", "state {step}: {what}: values() of view {:?} = {:?}", k, gv);
    let val = v.value().map(|x| x.id());
    let mv = model.get(k).map(|s| s.value);
    ensure!(val == mv, "C11", "C11:view.value", "state {step}: {what}: value() of view {:?} = {:?}, stored exactly there: {:?}", k, val, mv);
    let pv = v.prefix_value().map(|(p, x)| (raw_of(p), x.id()));
    ensure!(pv.map(|x| (x.0.key(), x.1)) == mv.map(|x| (k, x)), "C11", "C11:view.prefix_value", "state {step}: {what}: prefix_value() of view {:?} = {:?}, model {:?}", k, pv, mv);
    if env.focus.has(18) {
        if let (Some((r, _)), Some(s)) = (pv, model.get(k)) {
            ensure!(r.bits == s.repr, "C18", "C18:view.prefix_value:repr", "state {step}: prefix_value() of view {:?} reports bits {:x}, stored {:x}", k, r.bits, s.repr);
        }
        if let Some(s) = model.get(k) {
            ensure!(v.prefix().raw_bits() == s.repr, "C18", "C18:view.prefix:repr", "state {step}: prefix() of a view at stored entry {:?} reports bits {:x}, stored {:x}", k, v.prefix().raw_bits(), s.repr);
        }
    }
    Ok(k)
}

/// Recursively check left/right of an immutable view. Returns the number of views visited.
fn check_view_rec<P: TP, V: Val>(v: TrieView<'_, P, V>, model: &Model, canonical: bool, env: &mut Env, depth: u32, views: &mut Vec<(Key, Vec<bool>)>, path: &mut Vec<bool>) -> R {
    let step = env.step;
    ensure!(depth <= 140, "C15", "C15:walk:diverges", "view recursion deeper than 140");
    let lim = 4 * model.len() + 64;
    let k = check_view_here(&v, model, env, "reachable view")?;
    views.push((k, path.clone()));
    let all = entries_under(model, k);
    for side in [false, true] {
        let name = if side { "right" } else { "left" };
        let want_side: KV = all.iter().copied().filter(|(e, _)| *e != k && key_bit(*e, k.len as u32) == side).collect();
        let sub = if side { v.right() } else { v.left() };
        match sub {
            None => {
                ensure!(want_side.is_empty(), "C11", format!("C11:{name}:none-but-entries"), "state {step}: {name}() of view {:?} is None but entries {:?} lie on that side", k, want_side);
            }
            Some(s) => {
                let ks = key_of(s.prefix());
                ensure!(ks.len > k.len && covers(k, ks) && key_bit(ks, k.len as u32) == side, "C11", format!("C11:{name}:position"), "state {step}: {name}() of view {:?} has prefix {:?}", k, ks);
                let got = view_iter(&s, lim);
                ensure!(got == want_side, "C11", format!("C11:{name}:entries"), "state {step}: {name}() of view {:?} (prefix {:?}) addresses {:?}, the entries on that side are {:?}", k, ks, got, want_side);
                if canonical {
                    ensure!(!want_side.is_empty(), "C11", format!("C11:{name}:exists-but-empty"), "state {step}: {name}() of view {:?} exists but holds no entry (canonical history)", k);
                }
                if want_side.is_empty() {
                    env.ev("c11_empty_side_view");
                }
                path.push(side);
                check_view_rec(s, model, canonical, env, depth + 1, views, path)?;
                path.pop();
            }
        }
    }
    if depth >= 2 {
        env.ev("c11_depth_ge2");
    }
    Ok(())
}

fn nav_path_mut<'a, P: TP, V: Val>(map: &'a mut PrefixMap<P, V>, root: &P, path: &[bool]) -> Option<TrieViewMut<'a, P, V>> {
    let mut v = map.view_mut_at(root.clone())?;
    for side in path {
        v = if *side { v.right().ok()? } else { v.left().ok()? };
    }
    Some(v)
}

/// C11 for one state.
pub fn check_c11<P: TP, V: Val>(side: &mut Side<P, V>, env: &mut Env, queries: &[Raw]) -> R {
    let step = env.step;
    let lim = 4 * side.model.len() + 64;
    let shape = shape_of(&side.map)?;
    let mut nodes = Vec::new();
    shape.nodes(&mut nodes);
    let node_keys: BTreeSet<Key> = nodes.iter().map(|n| n.0).collect();
    let valueless: BTreeSet<Key> = nodes.iter().filter(|n| !n.1).map(|n| n.0).collect();
    let mfp = model_fp(&side.model);
    let mut nt: Vec<u64> = Vec::new();
    for q in queries {
        let qk = q.key();
        let p: P = mk(*q);
        let under = entries_under(&side.model, qk);
        env.cur_op = "view_at";
        let v = (&side.map).view_at(p.clone());
        let virt = !node_keys.contains(&qk);
        match v {
            None => {
                ensure!(under.is_empty(), "C11", "C11:view_at:none-but-entries", "state {step}: view_at({:?}) is None although {:?} are covered by it", qk, under);
                env.ev("c11_view_at_none");
            }
            Some(v) => {
                let k = key_of(v.prefix());
                ensure!(k == qk, "C11", "C11:view_at:prefix", "state {step}: view_at({:?}) returns a view with prefix {:?}", qk, k);
                check_view_here(&v, &side.model, env, "view_at")?;
                if side.canonical && qk.len > 0 {
                    ensure!(!under.is_empty(), "C11", "C11:view_at:exists-but-empty", "state {step}: view_at({:?}) exists but holds no entry (canonical history)", qk);
                }
                let mut views = Vec::new();
                let mut path = Vec::new();
                check_view_rec(v, &side.model, side.canonical, env, 0, &mut views, &mut path)?;
                env.evn("c11_views", views.len() as u64);
                let interesting = virt || valueless.contains(&qk) || views.len() >= 4;
                if virt {
                    env.ev("c11_virtual_view");
                } else if valueless.contains(&qk) {
                    env.ev("c11_branching_or_leftover_view");
                } else {
                    env.ev("c11_stored_view");
                }
                if interesting && nt.len() < 48 {
                    nt.push(fingerprint(&(mfp, qk, 11u8)));
                }
                // nested addressing: view_at / view_mut_at called on the view itself, for queries below it
                let below: Vec<Raw> = queries.iter().copied().filter(|r| r.key() != qk && covers(qk, r.key())).collect();
                let stride = (below.len() / 6).max(1);
                for q2 in below.iter().step_by(stride).take(8) {
                    let k2 = q2.key();
                    let p2: P = mk(*q2);
                    let under2 = entries_under(&side.model, k2);
                    env.cur_op = "view.view_at";
                    match (&side.map).view_at(p.clone()).and_then(|o| o.view_at(p2.clone())) {
                        None => ensure!(under2.is_empty(), "C11", "C11:nested.view_at:none-but-entries", "state {step}: view_at({:?}).view_at({:?}) is None although {:?} are covered by it", qk, k2, under2),
                        Some(nv) => {
                            ensure!(key_of(nv.prefix()) == k2, "C11", "C11:nested.view_at:prefix", "state {step}: view_at({:?}).view_at({:?}) has prefix {:?}", qk, k2, key_of(nv.prefix()));
                            check_view_here(&nv, &side.model, env, "nested view_at")?;
                        }
                    }
                    env.cur_op = "view_mut.view_mut_at";
                    match side.map.view_mut_at(p.clone()).and_then(|m| m.view_mut_at(p2)) {
                        None => ensure!(under2.is_empty(), "C11", "C11:nested.view_mut_at:none-but-entries", "state {step}: view_mut_at({:?}).view_mut_at({:?}) is None although {:?} are covered by it", qk, k2, under2),
                        Some(nm) => {
                            ensure!(key_of(nm.prefix()) == k2, "C11", "C11:nested.view_mut_at:prefix", "state {step}: view_mut_at({:?}).view_mut_at({:?}) has prefix {:?}", qk, k2, key_of(nm.prefix()));
                            let mval = nm.value().map(|x| x.id());
                            ensure!(mval == side.model.get(k2).map(|s| s.value), "C11", "C11:nested.view_mut_at:value", "state {step}: view_mut_at({:?}).view_mut_at({:?}).value() = {:?}", qk, k2, mval);
                            let got: KV = nm.into_iter().take(lim).map(|(p, x)| (key_of(p), x.id())).collect();
                            ensure!(got == under2, "C11", "C11:nested.view_mut_at:entries", "state {step}: view_mut_at({:?}).view_mut_at({:?}) addresses {:?}, entries under it {:?}", qk, k2, got, under2);
                        }
                    }
                    env.ev("c11_nested_view_at");
                }
                // mutable twin: every path again through view_mut_at + left/right
                for (vk, path) in &views {
                    env.cur_op = "view_mut_at";
                    let Some(mut mv) = nav_path_mut(&mut side.map, &p, path) else {
                        return fail("C11", "C11:view_mut:path-missing", format!("state {step}: view_mut_at({:?}) + path {:?} does not exist although the immutable view does", qk, path));
                    };
                    let mk_ = key_of(mv.prefix());
                    ensure!(mk_ == *vk, "C11", "C11:view_mut:prefix", "state {step}: mutable view at {:?}+{:?} has prefix {:?}, immutable twin {:?}", qk, path, mk_, vk);
                    let want = entries_under(&side.model, *vk);
                    let mval = mv.value().map(|x| x.id());
                    ensure!(mval == side.model.get(*vk).map(|s| s.value), "C11", "C11:view_mut:value", "state {step}: mutable view {:?} value {:?}", vk, mval);
                    let mpv = mv.prefix_value().map(|(p, x)| (key_of(p), x.id()));
                    ensure!(mpv == side.model.get(*vk).map(|s| (*vk, s.value)), "C11", "C11:view_mut:prefix_value", "state {step}: mutable view {:?} prefix_value {:?}", vk, mpv);
                    {
                        // the read-only view borrowed from the mutable one is the same view
                        env.cur_op = "view_mut.view";
                        let ro = (&mv).view();
                        ensure!(key_of(ro.prefix()) == *vk, "C11", "C11:view_mut.view:prefix", "state {step}: (&view_mut).view() of the view {:?} has prefix {:?}", vk, key_of(ro.prefix()));
                        ensure!(ro.value().map(|x| x.id()) == side.model.get(*vk).map(|s| s.value), "C11", "C11:view_mut.view:value", "state {step}: (&view_mut).view().value() of the view {:?} = {:?}", vk, ro.value().map(|x| x.id()));
                        ensure!(view_iter(&ro, lim) == want, "C11", "C11:view_mut.view:iter", "state {step}: (&view_mut).view() of {:?} iterates {:?}, expected {:?}", vk, view_iter(&ro, lim), want);
                        for sidev in [false, true] {
                            let sub = if sidev { ro.right() } else { ro.left() };
                            let want_side: KV = want.iter().copied().filter(|(e, _)| *e != *vk && key_bit(*e, vk.len as u32) == sidev).collect();
                            match sub {
                                None => ensure!(want_side.is_empty(), "C11", "C11:view_mut.view:side-none-but-entries", "state {step}: (&view_mut).view() of {:?} has no {} side but entries {:?}", vk, if sidev { "right" } else { "left" }, want_side),
                                Some(sv) => ensure!(view_iter(&sv, lim) == want_side, "C11", "C11:view_mut.view:side-entries", "state {step}: {} side of (&view_mut).view() of {:?} addresses {:?}, expected {:?}", if sidev { "right" } else { "left" }, vk, view_iter(&sv, lim), want_side),
                            }
                        }
                    }
                    let got: KV = mv.iter_mut().take(lim).map(|(p, x)| (key_of(p), x.id())).collect();
                    ensure!(got == want, "C11", "C11:view_mut:iter_mut", "state {step}: mutable view {:?} iterates {:?}, entries under it {:?}", vk, got, want);
                    let gv: Vec<u64> = mv.values_mut().take(lim).map(|x| x.id()).collect();
                    ensure!(gv == want.iter().map(|x| x.1).collect::<Vec<_>>(), "C11", "C11:view_mut:values_mut", "state {step}: mutable view {:?} values_mut {:?}", vk, gv);
                    let hl = mv.has_left();
                    let hr = mv.has_right();
                    // sides through split()
                    env.cur_op = "view_mut.split";
                    let (l, r) = mv.split();
                    ensure!(l.is_some() == hl && r.is_some() == hr, "C11", "C11:has_left/right", "state {step}: has_left/has_right = {hl}/{hr} but split gives {}/{} at view {:?}", l.is_some(), r.is_some(), vk);
                    for (sidev, sub) in [(false, l), (true, r)] {
                        let want_side: KV = want.iter().copied().filter(|(e, _)| *e != *vk && key_bit(*e, vk.len as u32) == sidev).collect();
                        match sub {
                            None => ensure!(want_side.is_empty(), "C11", "C11:split:none-but-entries", "state {step}: split() of {:?} has no {} half but entries {:?}", vk, if sidev { "right" } else { "left" }, want_side),
                            Some(s) => {
                                let ks = key_of(s.prefix());
                                ensure!(ks.len > vk.len && covers(*vk, ks) && key_bit(ks, vk.len as u32) == sidev, "C11", "C11:split:position", "state {step}: split() half of {:?} has prefix {:?}", vk, ks);
                                let got: KV = s.into_iter().take(lim).map(|(p, x)| (key_of(p), x.id())).collect();
                                ensure!(got == want_side, "C11", "C11:split:entries", "state {step}: split() half {:?} of {:?} addresses {:?}, expected {:?}", ks, vk, got, want_side);
                            }
                        }
                    }
                    // left()/right() on fresh views agree with has_*
                    let mv = nav_path_mut(&mut side.map, &p, path).unwrap();
                    let l = mv.left();
                    ensure!(l.is_ok() == hl, "C11", "C11:left vs has_left", "state {step}: left().is_ok() = {} but has_left() = {hl} at {:?}", l.is_ok(), vk);
                    if let Err(back) = l {
                        ensure!(key_of(back.prefix()) == *vk, "C11", "C11:left:err-view", "state {step}: left() failed and handed back a different view");
                    }
                    let mv = nav_path_mut(&mut side.map, &p, path).unwrap();
                    let r = mv.right();
                    ensure!(r.is_ok() == hr, "C11", "C11:right vs has_right", "state {step}: right().is_ok() = {} but has_right() = {hr} at {:?}", r.is_ok(), vk);
                    if let Err(back) = r {
                        ensure!(key_of(back.prefix()) == *vk, "C11", "C11:right:err-view", "state {step}: right() failed and handed back a different view");
                    }
                }
            }
        }
        if side.canonical && qk.len > 0 {
            env.ev("c11_canonical_iff_checked");
        }
    }
    env.trace.clear();
    env.cur_op = "";
    NT.with(|n| n.borrow_mut().extend(nt));
    Ok(())
}

thread_local! {
    /// fingerprints of non-trivial sub-cases of the current case (drained by the executor)
    pub static NT: std::cell::RefCell<Vec<u64>> = std::cell::RefCell::new(Vec::new());
    pub static SUB: std::cell::Cell<u64> = std::cell::Cell::new(0);
}

fn collect_views<'a, P: TP, V: Val>(v: TrieView<'a, P, V>, path: &mut Vec<bool>, out: &mut Vec<(TrieView<'a, P, V>, Vec<bool>)>, depth: u32) {
    if depth > 140 || out.len() > 400 {
        return;
    }
    let l = v.left();
    let r = v.right();
    out.push((v, path.clone()));
    if let Some(l) = l {
        path.push(false);
        collect_views(l, path, out, depth + 1);
        path.pop();
    }
    if let Some(r) = r {
        path.push(true);
        collect_views(r, path, out, depth + 1);
        path.pop();
    }
}

/// C12 for one state: every reachable view x every query.
pub fn check_c12<P: TP, V: Val>(side: &mut Side<P, V>, env: &mut Env, queries: &[Raw], salt: u64) -> R {
    let step = env.step;
    let lim = 4 * side.model.len() + 64;
    let shape = shape_of(&side.map)?;
    let mut nodes = Vec::new();
    shape.nodes(&mut nodes);
    let node_keys: BTreeSet<Key> = nodes.iter().map(|n| n.0).collect();
    let mfp = model_fp(&side.model);
    let mut nt: Vec<u64> = Vec::new();
    let mut sub = 0u64;
    // roots: the whole map, plus view_at(q) for every query that yields a view; dedupe by prefix key
    let mut seen: BTreeSet<Key> = BTreeSet::new();
    let mut roots: Vec<(P, Vec<bool>, Key)> = Vec::new();
    {
        let map = &side.map;
        for q in queries {
            let p: P = mk(*q);
            if let Some(v) = map.view_at(p.clone()) {
                let mut out = Vec::new();
                collect_views(v, &mut Vec::new(), &mut out, 0);
                for (vv, path) in out {
                    let k = key_of(vv.prefix());
                    if seen.insert(k) {
                        roots.push((p.clone(), path, k));
                    }
                }
            }
        }
    }
    for (ri, (rootp, path, vk)) in roots.iter().enumerate() {
        let virt = !node_keys.contains(vk);
        let ev = entries_under(&side.model, *vk);
        for (qi, q2) in queries.iter().enumerate() {
            let qk = q2.key();
            let qp: P = mk(*q2);
            let s: KV = ev.iter().copied().filter(|(e, _)| covers(qk, *e)).collect();
            let class = if qk == *vk {
                "c12_q_equal"
            } else if covers(*vk, qk) {
                "c12_q_inside"
            } else if covers(qk, *vk) {
                "c12_q_covering"
            } else {
                "c12_q_disjoint"
            };
            env.ev(class);
            sub += 1;
            let lpm_want: Option<(Key, u64)> = ev.iter().copied().filter(|(e, _)| covers(*e, qk)).max_by_key(|(e, _)| e.len);
            let exact_want: Option<(Key, u64)> = ev.iter().copied().find(|(e, _)| *e == qk);
            {
                // immutable view
                let mut v = (&side.map).view_at(rootp.clone()).unwrap();
                for sd in path {
                    v = if *sd { v.right().unwrap() } else { v.left().unwrap() };
                }
                debug_assert!(key_of(v.prefix()) == *vk);
                env.cur_op = "view.find";
                let f = v.find(qp.clone());
                match &f {
                    None => ensure!(s.is_empty(), "C12", format!("C12:find:none-but-entries:{class}"), "state {step}: view {:?}.find({:?}) = None although the view's entries {:?} are covered by the query", vk, qk, s),
                    Some(f) => {
                        let got = view_iter(f, lim);
                        ensure!(got == s, "C12", format!("C12:find:entries:{class}"), "state {step}: view {:?}{}.find({:?}) addresses {:?} (prefix {:?}), the view's entries covered by the query are {:?}", vk, if virt { " (virtual)" } else { "" }, qk, got, key_of(f.prefix()), s);
                    }
                }
                // searching again from the result is relative to the result's entries (depth-2 chains)
                if let Some(f) = &f {
                    if (qi + ri) % 4 == 0 {
                        for (q3i, q3) in queries.iter().enumerate().skip(qi % 5).step_by(5) {
                            let q3k = q3.key();
                            let s3: KV = s.iter().copied().filter(|(e, _)| covers(q3k, *e)).collect();
                            env.cur_op = "view.find";
                            match f.find(mk::<P>(*q3)) {
                                None => ensure!(s3.is_empty(), "C12", "C12:find-chain:none-but-entries", "state {step}: view {:?}.find({:?}).find({:?}) = None although {:?} are covered", vk, qk, q3k, s3),
                                Some(g) => {
                                    let got = view_iter(&g, lim);
                                    ensure!(got == s3, "C12", "C12:find-chain:entries", "state {step}: view {:?}.find({:?}).find({:?}) addresses {:?}, expected {:?}", vk, qk, q3k, got, s3);
                                }
                            }
                            let lpm3 = s.iter().copied().filter(|(e, _)| covers(*e, q3k)).max_by_key(|(e, _)| e.len);
                            env.cur_op = "view.find_lpm";
                            let gl = f.find_lpm(&mk::<P>(*q3)).map(|g| key_of(g.prefix()));
                            ensure!(gl == lpm3.map(|x| x.0), "C12", "C12:find-chain:find_lpm", "state {step}: view {:?}.find({:?}).find_lpm({:?}) = {:?}, expected {:?}", vk, qk, q3k, gl, lpm3.map(|x| x.0));
                            let _ = q3i;
                            env.ev("c12_find_chain");
                        }
                    }
                }
                env.cur_op = "view.view_at";
                let f2 = v.clone().view_at(qp.clone());
                ensure!(f2.is_some() == f.is_some(), "C12", "C12:view_at-vs-find", "state {step}: view {:?}: view_at({:?}).is_some() = {} but find gives {}", vk, qk, f2.is_some(), f.is_some());
                if let (Some(a), Some(b)) = (&f, &f2) {
                    ensure!(view_iter(a, lim) == view_iter(b, lim) && key_of(a.prefix()) == key_of(b.prefix()), "C12", "C12:view_at-vs-find", "state {step}: view {:?}: view_at({:?}) differs from find", vk, qk);
                }
                env.cur_op = "view.find_exact";
                let fe = v.find_exact(&qp);
                match (&fe, exact_want) {
                    (None, None) => {}
                    (Some(f), Some((k, val))) => {
                        ensure!(key_of(f.prefix()) == k && f.value().map(|x| x.id()) == Some(val), "C12", format!("C12:find_exact:position:{class}"), "state {step}: view {:?}.find_exact({:?}) is positioned at {:?} with value {:?}", vk, qk, key_of(f.prefix()), f.value().map(|x| x.id()));
                    }
                    (Some(f), None) => return fail("C12", &format!("C12:find_exact:some-but-absent:{class}"), format!("state {step}: view {:?}.find_exact({:?}) = view at {:?} but the query is not stored in the view (entries {:?})", vk, qk, key_of(f.prefix()), ev)),
                    (None, Some(_)) => return fail("C12", &format!("C12:find_exact:none-but-stored:{class}"), format!("state {step}: view {:?}.find_exact({:?}) = None but the query is stored in the view", vk, qk)),
                }
                env.cur_op = "view.find_lpm";
                let fl = v.find_lpm(&qp);
                match (&fl, lpm_want) {
                    (None, None) => {}
                    (Some(f), Some((k, val))) => {
                        ensure!(key_of(f.prefix()) == k && f.value().map(|x| x.id()) == Some(val), "C12", format!("C12:find_lpm:position:{class}"), "state {step}: view {:?}.find_lpm({:?}) is positioned at {:?}, longest covering entry of the view is {:?}", vk, qk, key_of(f.prefix()), k);
                    }
                    (Some(f), None) => return fail("C12", &format!("C12:find_lpm:some-but-none-covers:{class}"), format!("state {step}: view {:?}{}.find_lpm({:?}) = view at {:?} but no entry of the view covers the query (entries {:?})", vk, if virt { " (virtual)" } else { "" }, qk, key_of(f.prefix()), ev)),
                    (None, Some((k, _))) => return fail("C12", &format!("C12:find_lpm:none-but-covered:{class}"), format!("state {step}: view {:?}.find_lpm({:?}) = None but {:?} covers the query", vk, qk, k)),
                }
            }
            // mutable twins on a third of the queries
            if (qi as u64 + ri as u64 + salt) % 3 == 0 {
                env.ev("c12_mut_twin");
                for which in 0..4u8 {
                    env.cur_op = "view_mut_at";
                    let Some(mv) = nav_path_mut(&mut side.map, rootp, path) else {
                        return fail("C11", "C11:view_mut:path-missing", format!("state {step}: mutable twin of view {:?} does not exist", vk));
                    };
                    let (res, name): (Result<TrieViewMut<P, V>, TrieViewMut<P, V>>, &str) = match which {
                        0 => {
                            env.cur_op = "view_mut.find";
                            (mv.find(qp.clone()), "find")
                        }
                        1 => {
                            env.cur_op = "view_mut.find_exact";
                            (mv.find_exact(&qp), "find_exact")
                        }
                        2 => {
                            env.cur_op = "view_mut.find_lpm";
                            (mv.find_lpm(&qp), "find_lpm")
                        }
                        _ => {
                            env.cur_op = "view_mut.view_mut_at";
                            match mv.view_mut_at(qp.clone()) {
                                Some(x) => (Ok(x), "view_mut_at"),
                                None => {
                                    ensure!(s.is_empty(), "C12", format!("C12:view_mut_at:none-but-entries:{class}"), "state {step}: mutable view {:?}.view_mut_at({:?}) = None although {:?} are covered", vk, qk, s);
                                    continue;
                                }
                            }
                        }
                    };
                    match res {
                        Ok(mut f) => {
                            let fk = key_of(f.prefix());
                            let fval = f.value().map(|x| x.id());
                            let got: KV = f.iter_mut().take(lim).map(|(p, x)| (key_of(p), x.id())).collect();
                            match which {
                                0 | 3 => ensure!(got == s, "C12", format!("C12:mut.{name}:entries:{class}"), "state {step}: mutable view {:?}.{name}({:?}) addresses {:?}, expected {:?}", vk, qk, got, s),
                                1 => match exact_want {
                                    Some((k, val)) => ensure!(fk == k && fval == Some(val), "C12", format!("C12:mut.find_exact:position:{class}"), "state {step}: mutable view {:?}.find_exact({:?}) positioned at {:?}", vk, qk, fk),
                                    None => return fail("C12", &format!("C12:mut.find_exact:some-but-absent:{class}"), format!("state {step}: mutable view {:?}.find_exact({:?}) = Ok(view at {:?}) but the query is not stored in the view", vk, qk, fk)),
                                },
                                _ => match lpm_want {
                                    Some((k, val)) => ensure!(fk == k && fval == Some(val), "C12", format!("C12:mut.find_lpm:position:{class}"), "state {step}: mutable view {:?}.find_lpm({:?}) positioned at {:?}, expected {:?}", vk, qk, fk, k),
                                    None => return fail("C12", &format!("C12:mut.find_lpm:some-but-none-covers:{class}"), format!("state {step}: mutable view {:?}.find_lpm({:?}) = Ok(view at {:?}) but no entry of the view covers the query", vk, qk, fk)),
                                },
                            }
                        }
                        Err(mut back) => {
                            let bk = key_of(back.prefix());
                            let got: KV = back.iter_mut().take(lim).map(|(p, x)| (key_of(p), x.id())).collect();
                            ensure!(bk == *vk && got == ev, "C12", format!("C12:mut.{name}:err-view"), "state {step}: mutable view {:?}.{name}({:?}) failed and handed back a view with prefix {:?} and entries {:?}", vk, qk, bk, got);
                            match which {
                                0 => ensure!(s.is_empty(), "C12", format!("C12:mut.find:err-but-entries:{class}"), "state {step}: mutable view {:?}.find({:?}) = Err although {:?} are covered", vk, qk, s),
                                1 => ensure!(exact_want.is_none(), "C12", format!("C12:mut.find_exact:err-but-stored:{class}"), "state {step}: mutable view {:?}.find_exact({:?}) = Err but the query is stored in the view", vk, qk),
                                _ => ensure!(lpm_want.is_none(), "C12", format!("C12:mut.find_lpm:err-but-covered:{class}"), "state {step}: mutable view {:?}.find_lpm({:?}) = Err but {:?} covers the query", vk, qk, lpm_want),
                            }
                        }
                    }
                }
            }
            let whole = vk.len == 0 && !virt;
            let nontrivial = (!whole && class != "c12_q_inside") || virt || (class == "c12_q_inside" && !s.is_empty() && s.len() < ev.len());
            if nontrivial && nt.len() < 64 {
                nt.push(fingerprint(&(mfp, *vk, qk, 12u8)));
            }
        }
        if virt {
            env.ev("c12_virtual_root");
        }
    }
    env.evn("c12_views", roots.len() as u64);
    env.cur_op = "";
    NT.with(|n| n.borrow_mut().extend(nt));
    SUB.with(|c| c.set(c.get() + sub));
    Ok(())
}

/// C11 on `PrefixSet`: `AsView for &PrefixSet` and `AsViewMut for &mut PrefixSet`.
pub fn check_set_views<P: TP>(model: &Model, env: &mut Env, queries: &[Raw]) -> R {
    use prefix_trie::PrefixSet;
    let step = env.step;
    let mut set: PrefixSet<P> = PrefixSet::new();
    for (k, st) in model.m.iter() {
        set.insert(P::make(st.repr, k.len));
    }
    let lim = 4 * model.len() + 64;
    let all: Vec<Key> = model.keys();
    env.cur_op = "set.view";
    let got: Vec<Key> = (&set).view().iter().take(lim).map(|(p, _)| key_of(p)).collect();
    ensure!(got == all, "C11", "C11:set.view:iter", "state {step}: (&set).view().iter() = {:?}, expected {:?}", got, all);
    for q in queries {
        let qk = q.key();
        let p: P = mk(*q);
        let under: Vec<Key> = model.children_keys(qk);
        env.cur_op = "set.view_at";
        match (&set).view_at(p.clone()) {
            None => ensure!(under.is_empty(), "C11", "C11:set.view_at:none-but-entries", "state {step}: (&set).view_at({:?}) = None although {:?} are covered", qk, under),
            Some(v) => {
                ensure!(key_of(v.prefix()) == qk, "C11", "C11:set.view_at:prefix", "state {step}: (&set).view_at({:?}) has prefix {:?}", qk, key_of(v.prefix()));
                let got: Vec<Key> = v.keys().take(lim).map(|p| key_of(p)).collect();
                ensure!(got == under, "C11", "C11:set.view_at:entries", "state {step}: (&set).view_at({:?}) addresses {:?}, expected {:?}", qk, got, under);
                ensure!(v.value().is_some() == model.get(qk).is_some(), "C11", "C11:set.view_at:value", "state {step}: (&set).view_at({:?}).value() presence is wrong", qk);
                ensure!(!under.is_empty() || qk.len == 0, "C11", "C11:set.view_at:exists-but-empty", "state {step}: (&set).view_at({:?}) exists but holds no entry (insert-only set)", qk);
            }
        }
        env.cur_op = "set.view_mut_at";
        match (&mut set).view_mut_at(p.clone()) {
            None => ensure!(under.is_empty(), "C11", "C11:set.view_mut_at:none-but-entries", "state {step}: (&mut set).view_mut_at({:?}) = None although {:?} are covered", qk, under),
            Some(mut v) => {
                ensure!(key_of(v.prefix()) == qk, "C11", "C11:set.view_mut_at:prefix", "state {step}: (&mut set).view_mut_at({:?}) has prefix {:?}", qk, key_of(v.prefix()));
                let got: Vec<Key> = v.iter_mut().take(lim).map(|(p, _)| key_of(p)).collect();
                ensure!(got == under, "C11", "C11:set.view_mut_at:entries", "state {step}: (&mut set).view_mut_at({:?}) addresses {:?}, expected {:?}", qk, got, under);
            }
        }
    }
    env.ev("c11_set_views_checked");
    env.cur_op = "";
    Ok(())
}
