//! Small deterministic driver for Miri (engine 4): C13/C14 cases without proptest.
//! usage: miri_c14 <case_seed> <first_case> <n_cases> [threads]
//! Miri owns the thread schedule (-Zmiri-seed) and reports data races, aliasing violations
//! (Stacked Borrows), out-of-bounds and use-after-free inside the crate's unsafe code.

use ptv::c14::exec_c14_dyn;
use ptv::fuzzdec::decode_c14;
use ptv::ops::splitmix;

fn main() {
    let a: Vec<String> = std::env::args().collect();
    let seed: u64 = a.get(1).and_then(|s| s.parse().ok()).unwrap_or(1);
    let first: u64 = a.get(2).and_then(|s| s.parse().ok()).unwrap_or(0);
    let n: u64 = a.get(3).and_then(|s| s.parse().ok()).unwrap_or(4);
    let threads = a.get(4).map_or(true, |s| s != "nothreads");
    // "sb": only operations that reach nodes through Table::get_mut (iterators, value_mut, set, remove);
    // this subset is clean under Stacked Borrows on the unchanged tree, so Miri can run with borrow
    // tracking enabled and sees aliasing-model regressions in the raw-pointer element access
    let sb_mode = a.iter().any(|s| s == "sb");
    ptv::engine::install_panic_hook();
    let types = ["u8", "u32", "ipnet6", "inet4"];
    let mut nontrivial = 0;
    for k in first..first + n {
        let mut bytes = Vec::with_capacity(160);
        let mut s = splitmix(seed ^ (k.wrapping_mul(0x9E3779B97F4A7C15)));
        for _ in 0..20 {
            s = splitmix(s);
            bytes.extend_from_slice(&s.to_le_bytes());
        }
        let mut c = decode_c14(&bytes, types[(k % 4) as usize], 6);
        // a populated map: a dense universe and a dozen inserts in front of the decoded operations
        let mut next = || {
            s = splitmix(s);
            s
        };
        c.case.usteps = (0..10)
            .map(|j| {
                let r = next();
                ptv::ops::UStep {
                    kind: if j == 0 { 1 } else { [3u8, 4, 5, 6, 3, 4, 2, 5][(r % 8) as usize] },
                    parent: (r >> 8) as u16,
                    a: if j == 0 { 40 } else { (r >> 24) as u8 },
                    bits: ((next() as u128) << 64) | next() as u128,
                }
            })
            .collect();
        let mut ops: Vec<ptv::ops::Op> = (0..18)
            .map(|_| ptv::ops::Op::Insert {
                m: ptv::ops::M::A,
                p: ptv::ops::PRef { i: next() as u16, noise: 0 },
            })
            .collect();
        ops.extend(c.case.ops.drain(..));
        c.case.ops = ops;
        if c.plan.len() < 3 {
            c.plan = (0..5).map(|_| ptv::c14::PlanStep::Split(next() as u16)).collect();
        }
        if sb_mode {
            use ptv::c14::{PlanStep, WOp};
            c.pair_kind = 0;
            c.plan.retain(|p| matches!(p, PlanStep::Split(_)));
            if c.plan.len() < 3 {
                c.plan = (0..5).map(|j| PlanStep::Split((j * 9973) as u16)).collect();
            }
            for w in c.workers.iter_mut() {
                w.retain(|o| matches!(o, WOp::IterMutWrite(_) | WOp::ValuesMutWrite(_) | WOp::Set | WOp::Remove | WOp::ValueMut));
                if w.is_empty() {
                    w.push(WOp::IterMutWrite(!0));
                }
            }
        }
        println!("MIRI-CASE {k}");
        let r = exec_c14_dyn(&c, threads);
        if let Some(hb) = r.harness_bug {
            println!("MIRI-HARNESS-BUG {k}: {hb}");
            std::process::exit(2);
        }
        if let Some(f) = r.fail {
            if f.prop == "C14" || f.prop == "C13" {
                println!("MIRI-FAIL {k}: {} [{}] {}", f.prop, f.sig, f.msg);
                std::process::exit(1);
            }
        }
        if r.nontrivial {
            nontrivial += 1;
        }
    }
    println!("MIRI-DONE cases={n} nontrivial={nontrivial}");
}
