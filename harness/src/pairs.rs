//! C05-C08 (+ set-operation parts of C13, C18): pairs of views and the simultaneous traversals.

use crate::engine::*;
use crate::ensure;
use crate::env::{fail, Env, Focus, Side, Val, R, SV};
use crate::gen::{self, Weights};
use crate::hist::{panic_to_fail, Events};
use crate::interp::{nav_mut, run_history, World};
use crate::model::{covers, key_of, raw_of, Key, Model, Raw};
use crate::observe::shape_of;
use crate::ops::*;
use crate::tp::TP;
use prefix_trie::trieview::UnionItem;
use prefix_trie::{AsView, AsViewMut, PrefixMap, PrefixSet, TrieView};
use proptest::prelude::*;
use serde::{Deserialize, Serialize};
use std::collections::{BTreeMap, BTreeSet};
use std::panic::{catch_unwind, AssertUnwindSafe};

#[derive(Clone, Debug, PartialEq, Eq, Serialize, Deserialize)]
pub struct PairCase {
    pub case: Case,
    pub nav_a: Vec<Nav>,
    pub nav_b: Vec<Nav>,
    /// 0: view of A vs view of B (different value types); 1: two views of A; 2: view of A vs a PrefixSet holding B's keys
    pub mode: u8,
}

pub fn pair_case(ptype: &'static str, w: &Weights, max_uni: usize, max_ops: usize) -> BoxedStrategy<PairCase> {
    (
        // mostly small related maps; one case in sixteen starts from bulk insertions / complete chains
        prop_oneof![15 => gen::case_min(ptype, w, 3, max_uni, 6, max_ops), 1 => gen::scale_case(ptype, w, 8)],
        gen::nav_prog(3),
        gen::nav_prog(3),
        prop_oneof![6 => Just(0u8), 2 => Just(1u8), 1 => Just(2u8)],
    )
        .prop_map(|(case, nav_a, nav_b, mode)| PairCase {
            case,
            nav_a,
            nav_b,
            mode,
        })
        .boxed()
}

/// entries of a view: (key, stored bits, value id)
type Ent = Vec<(Key, u128, u64)>;

fn ents(model: &Model, scope: Key) -> Ent {
    model.children(scope).into_iter().map(|(k, s)| (k, s.repr, s.value)).collect()
}

/// Navigate an immutable view; returns the view and its scope (see interp::nav_mut).
pub fn nav_ro<'a, P: TP, V: Val>(mut v: TrieView<'a, P, V>, nav: &[Nav], env: &mut Env) -> Option<(TrieView<'a, P, V>, Key)> {
    let mut scope = key_of(v.prefix());
    let rs = |env: &Env, p: PRef| -> P { crate::model::mk(resolve(&env.uni, p, P::W)) };
    for n in nav {
        let k = key_of(v.prefix());
        if covers(scope, k) {
            scope = k;
        }
        v = match n {
            Nav::At(p) => {
                env.cur_op = "view.view_at";
                v.view_at(rs(env, *p))?
            }
            Nav::AtCut(p, k) => {
                env.cur_op = "view.view_at";
                v.view_at(crate::model::mk(resolve_cut(&env.uni, *p, *k, P::W)))?
            }
            Nav::AtRaw(r) => {
                env.cur_op = "view.view_at";
                v.view_at(crate::model::mk(*r))?
            }
            Nav::Find(p) => {
                env.cur_op = "view.find";
                match v.find(rs(env, *p)) {
                    Some(x) => x,
                    None => v,
                }
            }
            Nav::FindExact(p) => {
                env.cur_op = "view.find_exact";
                match v.find_exact(&rs(env, *p)) {
                    Some(x) => x,
                    None => v,
                }
            }
            Nav::FindLpm(p) => {
                env.cur_op = "view.find_lpm";
                match v.find_lpm(&rs(env, *p)) {
                    Some(x) => x,
                    None => v,
                }
            }
            Nav::Left => {
                env.cur_op = "view.left";
                match v.left() {
                    Some(x) => x,
                    None => v,
                }
            }
            Nav::Right => {
                env.cur_op = "view.right";
                match v.right() {
                    Some(x) => x,
                    None => v,
                }
            }
            Nav::SplitLeft => {
                env.cur_op = "view.left";
                v.left()?
            }
            Nav::SplitRight => {
                env.cur_op = "view.right";
                v.right()?
            }
        };
    }
    let k = key_of(v.prefix());
    if covers(scope, k) {
        scope = k;
    }
    Some((v, scope))
}

fn lpm_in(e: &Ent, k: Key) -> Option<(Key, u128, u64)> {
    e.iter().copied().filter(|(c, _, _)| covers(*c, k)).max_by_key(|(c, _, _)| c.len)
}

fn view_ents<P: TP, V: Val>(v: &TrieView<'_, P, V>, lim: usize) -> Vec<(Key, u64)> {
    v.iter().take(lim).map(|(p, x)| (key_of(p), x.id())).collect()
}

fn opt_pv<P: TP, V: Val>(x: Option<(&P, &V)>) -> Option<(Raw, u64)> {
    x.map(|(p, v)| (raw_of(p), v.id()))
}

fn check_lpm_annotation(env: &Env, what: &str, item: Key, got: Option<(Raw, u64)>, other: &Ent, other_name: &str) -> R {
    let want = lpm_in(other, item);
    let g = got.map(|(r, v)| (r.key(), v));
    let w = want.map(|(k, _, v)| (k, v));
    if g != w {
        let class = match (got, want) {
            (Some((r, _)), _) if !covers(r.key(), item) => "reported-match-does-not-cover-item",
            (Some(_), None) => "some-but-no-cover",
            (None, Some(_)) => "none-but-covered",
            _ => "not-the-longest",
        };
        return fail(
            "C08",
            &format!("C08:{what}:{class}"),
            format!("{what}: item {:?} reports {:?} as longest match in the {other_name} view, the entries of that view give {:?} (view entries: {:?})", item, g, w, other.iter().map(|x| x.0).collect::<Vec<_>>()),
        );
    }
    if env.focus.has(18) || env.focus.has(8) {
        if let (Some((r, _)), Some((k, repr, _))) = (got, want) {
            let (prop, sig) = if env.focus.has(8) { ("C08", format!("C08:{what}:not-the-stored-prefix")) } else { ("C18", format!("C18:{what}:lpm-repr")) };
            ensure!(r.bits == repr, prop, sig, "{what}: item {:?}: the reported longest match {:?} has bits {:x}, but the {other_name} view stores that prefix as {:x} (a direct longest-prefix query returns the stored one)", item, k, r.bits, repr);
        }
    }
    Ok(())
}

/// All read-only set operations on one pair of views.
#[allow(clippy::too_many_arguments)]
pub fn check_setops_ro<'a, P: TP, L: Val, Rv: Val>(
    va: &TrieView<'a, P, L>,
    vb: &TrieView<'a, P, Rv>,
    ea: &Ent,
    eb: &Ent,
    env: &mut Env,
) -> R {
    let lim = 4 * (ea.len() + eb.len()) + 64;
    let f = env.focus;
    let ma: BTreeMap<Key, (u128, u64)> = ea.iter().map(|(k, r, v)| (*k, (*r, *v))).collect();
    let mb: BTreeMap<Key, (u128, u64)> = eb.iter().map(|(k, r, v)| (*k, (*r, *v))).collect();
    let allk: BTreeSet<Key> = ma.keys().chain(mb.keys()).copied().collect();
    // ---------------- union
    if f.has(5) || f.has(8) || f.has(18) {
        env.cur_op = "union";
        let mut it = va.union(vb.clone());
        let mut items: Vec<UnionItem<'_, P, L, Rv>> = Vec::new();
        while let Some(x) = it.next() {
            items.push(x);
            ensure!(items.len() <= lim, "C20", "C20:union:diverges", "union does not end");
        }
        for _ in 0..2 {
            ensure!(it.next().is_none(), "C05", "C05:union:fused", "union yields an item after None");
        }
        // (key, left value, right value)
        let got: Vec<(Key, Option<u64>, Option<u64>)> = items
            .iter()
            .map(|it| match it {
                UnionItem::Left { prefix, left, .. } => (key_of(*prefix), Some(left.id()), None),
                UnionItem::Right { prefix, right, .. } => (key_of(*prefix), None, Some(right.id())),
                UnionItem::Both { prefix, left, right } => (key_of(*prefix), Some(left.id()), Some(right.id())),
            })
            .collect();
        let want: Vec<(Key, Option<u64>, Option<u64>)> = allk.iter().map(|k| (*k, ma.get(k).map(|x| x.1), mb.get(k).map(|x| x.1))).collect();
        if got != want {
            let gk: Vec<Key> = got.iter().map(|x| x.0).collect();
            let wk: Vec<Key> = want.iter().map(|x| x.0).collect();
            let mut gs = gk.clone();
            gs.sort();
            let class = if gk == wk {
                "tags-or-values"
            } else if gs == wk {
                "order"
            } else {
                "prefix-set"
            };
            return fail("C05", &format!("C05:union:{class}"), format!("union yields {:?}, expected {:?}", got, want));
        }
        for it in &items {
            let k = key_of(it.prefix());
            // accessor consistency
            let (l, r, b) = (it.left(), it.right(), it.both());
            match it {
                UnionItem::Left { prefix, left, right } => {
                    ensure!(b.is_none() && opt_pv(l) == Some((raw_of(*prefix), left.id())) && opt_pv(r) == opt_pv(*right), "C05", "C05:union:accessors", "UnionItem::Left accessors disagree with its fields at {:?}", k);
                    if f.has(8) || f.has(18) {
                        check_lpm_annotation(env, "union.Left.right", k, opt_pv(*right), eb, "right")?;
                        if lpm_in(eb, k).map_or(!eb.is_empty(), |m| m.0.len < k.len) {
                            env.ev("c08_interesting_annotation");
                        }
                    }
                    if f.has(18) {
                        ensure!(prefix.raw_bits() == ma[&k].0, "C18", "C18:union.Left:repr", "union Left item {:?} has bits {:x}, stored in the left view as {:x}", k, prefix.raw_bits(), ma[&k].0);
                    }
                }
                UnionItem::Right { prefix, left, right } => {
                    ensure!(b.is_none() && opt_pv(r) == Some((raw_of(*prefix), right.id())) && opt_pv(l) == opt_pv(*left), "C05", "C05:union:accessors", "UnionItem::Right accessors disagree with its fields at {:?}", k);
                    if f.has(8) || f.has(18) {
                        check_lpm_annotation(env, "union.Right.left", k, opt_pv(*left), ea, "left")?;
                        if lpm_in(ea, k).map_or(!ea.is_empty(), |m| m.0.len < k.len) {
                            env.ev("c08_interesting_annotation");
                        }
                    }
                    if f.has(18) {
                        ensure!(prefix.raw_bits() == mb[&k].0, "C18", "C18:union.Right:repr", "union Right item {:?} has bits {:x}, but it is stored in the right view as {:x}", k, prefix.raw_bits(), mb[&k].0);
                    }
                }
                UnionItem::Both { prefix, left, right } => {
                    ensure!(b.map(|(p, x, y)| (raw_of(p), x.id(), y.id())) == Some((raw_of(*prefix), left.id(), right.id())), "C05", "C05:union:accessors", "UnionItem::Both accessors disagree at {:?}", k);
                    if f.has(18) {
                        ensure!(prefix.raw_bits() == ma[&k].0 || prefix.raw_bits() == mb[&k].0, "C18", "C18:union.Both:repr", "union Both item {:?} has bits {:x}, stored as {:x} / {:x}", k, prefix.raw_bits(), ma[&k].0, mb[&k].0);
                    }
                }
            }
        }
    }
    // ---------------- intersection
    if f.has(6) || f.has(18) {
        env.cur_op = "intersection";
        let mut it = va.intersection(vb.clone());
        let mut items: Vec<(&P, &L, &Rv)> = Vec::new();
        while let Some(x) = it.next() {
            items.push(x);
            ensure!(items.len() <= lim, "C20", "C20:intersection:diverges", "intersection does not end");
        }
        for _ in 0..2 {
            ensure!(it.next().is_none(), "C06", "C06:intersection:fused", "intersection yields an item after None");
        }
        let got: Vec<(Key, u64, u64)> = items.iter().map(|(p, l, r)| (key_of(*p), l.id(), r.id())).collect();
        let want: Vec<(Key, u64, u64)> = ma.iter().filter_map(|(k, (_, v))| mb.get(k).map(|(_, w)| (*k, *v, *w))).collect();
        ensure!(got == want, "C06", "C06:intersection", "intersection yields {:?}, expected {:?} (left {:?}, right {:?})", got, want, ma.keys().collect::<Vec<_>>(), mb.keys().collect::<Vec<_>>());
        if f.has(18) {
            for (p, _, _) in &items {
                let k = key_of(*p);
                ensure!(p.raw_bits() == ma[&k].0 || p.raw_bits() == mb[&k].0, "C18", "C18:intersection:repr", "intersection item {:?} has bits {:x}, stored as {:x} / {:x}", k, p.raw_bits(), ma[&k].0, mb[&k].0);
            }
        }
        if !want.is_empty() && (ma.keys().any(|k| !mb.contains_key(k)) || mb.keys().any(|k| !ma.contains_key(k))) {
            env.ev("c06_nontrivial");
        }
    }
    // ---------------- difference
    if f.has(7) || f.has(8) || f.has(18) {
        env.cur_op = "difference";
        let mut it = va.difference(vb.clone());
        let mut items = Vec::new();
        while let Some(x) = it.next() {
            items.push(x);
            ensure!(items.len() <= lim, "C20", "C20:difference:diverges", "difference does not end");
        }
        for _ in 0..2 {
            ensure!(it.next().is_none(), "C07", "C07:difference:fused", "difference yields an item after None");
        }
        let got: Vec<(Key, u64)> = items.iter().map(|d| (key_of(d.prefix), d.value.id())).collect();
        let want: Vec<(Key, u64)> = ma.iter().filter(|(k, _)| !mb.contains_key(k)).map(|(k, (_, v))| (*k, *v)).collect();
        ensure!(got == want, "C07", "C07:difference", "difference yields {:?}, expected {:?} (left {:?}, right {:?})", got, want, ma.keys().collect::<Vec<_>>(), mb.keys().collect::<Vec<_>>());
        for d in &items {
            let k = key_of(d.prefix);
            if f.has(8) || f.has(18) {
                check_lpm_annotation(env, "difference.right", k, opt_pv(d.right), eb, "right")?;
                if lpm_in(eb, k).map_or(!eb.is_empty(), |m| m.0.len < k.len) {
                    env.ev("c08_interesting_annotation");
                }
            }
            if f.has(18) {
                ensure!(d.prefix.raw_bits() == ma[&k].0, "C18", "C18:difference:repr", "difference item {:?} has bits {:x}, stored {:x}", k, d.prefix.raw_bits(), ma[&k].0);
            }
        }
        if !want.is_empty() && want.len() < ma.len() {
            env.ev("c07_difference_strict");
        }
        env.cur_op = "covering_difference";
        let mut it = va.covering_difference(vb.clone());
        let mut items: Vec<(&P, &L)> = Vec::new();
        while let Some(x) = it.next() {
            items.push(x);
            ensure!(items.len() <= lim, "C20", "C20:covering_difference:diverges", "covering_difference does not end");
        }
        for _ in 0..2 {
            ensure!(it.next().is_none(), "C07", "C07:covering_difference:fused", "covering_difference yields an item after None");
        }
        let got: Vec<(Key, u64)> = items.iter().map(|(p, v)| (key_of(*p), v.id())).collect();
        let bkeys: Vec<Key> = mb.keys().copied().collect();
        let want: Vec<(Key, u64)> = ma.iter().filter(|(k, _)| !bkeys.iter().any(|c| covers(*c, **k))).map(|(k, (_, v))| (*k, *v)).collect();
        ensure!(got == want, "C07", "C07:covering_difference", "covering_difference yields {:?}, expected {:?} (left {:?}, right {:?})", got, want, ma.keys().collect::<Vec<_>>(), bkeys);
        if f.has(18) {
            for (p, _) in &items {
                let k = key_of(*p);
                ensure!(p.raw_bits() == ma[&k].0, "C18", "C18:covering_difference:repr", "covering_difference item {:?} has bits {:x}, stored {:x}", k, p.raw_bits(), ma[&k].0);
            }
        }
        if ma.keys().any(|k| !mb.contains_key(k) && bkeys.iter().any(|c| covers(*c, *k))) {
            env.ev("c07_removed_by_shorter_cover");
        }
        if bkeys.is_empty() {
            env.ev("c07_b_empty");
        }
        if bkeys.first().map_or(false, |k| k.len == 0) {
            env.ev("c07_b_holds_root");
        }
    }
    env.cur_op = "";
    Ok(())
}

fn root_kind(nodes: &BTreeMap<Key, bool>, label: Key) -> &'static str {
    match nodes.get(&label) {
        Some(true) => "stored",
        Some(false) => "valueless",
        None => "virtual",
    }
}

fn node_map<P: TP, V: Val>(map: &PrefixMap<P, V>) -> R<BTreeMap<Key, bool>> {
    let s = shape_of(map)?;
    let mut n = Vec::new();
    s.nodes(&mut n);
    Ok(n.into_iter().map(|(k, v, _)| (k, v)).collect())
}

fn classify(env: &mut Env, sa: Key, sb: Key, ka: &'static str, kb: &'static str, ea: &Ent, eb: &Ent, leftover: bool) {
    let pos = if sa == sb {
        "pos_equal"
    } else if covers(sa, sb) {
        "pos_left_covers_right"
    } else if covers(sb, sa) {
        "pos_right_covers_left"
    } else {
        "pos_disjoint"
    };
    env.ev(pos);
    env.ev(match ka {
        "stored" => "rootA_stored",
        "valueless" => "rootA_valueless",
        _ => "rootA_virtual",
    });
    env.ev(match kb {
        "stored" => "rootB_stored",
        "valueless" => "rootB_valueless",
        _ => "rootB_virtual",
    });
    if !ea.is_empty() && !eb.is_empty() {
        env.ev("both_nonempty");
        if sa != sb || ka == "virtual" || kb == "virtual" || leftover {
            env.ev("c05_nontrivial");
        }
        if sa != sb {
            env.ev("roots_differ_nonempty");
        }
    }
}


/// One pair of views over two maps: read-only set operations and their mutable twins.
fn pair_two_maps<P: TP>(w: &mut World<P, u64, SV>, nav_a: &[Nav], nav_b: &[Nav], na: &BTreeMap<Key, bool>, nb: &BTreeMap<Key, bool>, leftover: bool, lim: usize, env: &mut Env) -> R {
            env.ev("mode_two_maps");
            let Some((va, sa)) = nav_ro((&w.a.map).view(), nav_a, env) else {
                env.ev("nav_lost");
                return Ok(());
            };
            let Some((vb, sb)) = nav_ro((&w.b.map).view(), nav_b, env) else {
                env.ev("nav_lost");
                return Ok(());
            };
            let ea = ents(&w.a.model, sa);
            let eb = ents(&w.b.model, sb);
            if view_ents(&va, lim) != ea.iter().map(|x| (x.0, x.2)).collect::<Vec<_>>() || view_ents(&vb, lim) != eb.iter().map(|x| (x.0, x.2)).collect::<Vec<_>>() {
                env.ev("discarded_view_mismatch");
                return Ok(());
            }
            classify(env, sa, sb, root_kind(na, key_of(va.prefix())), root_kind(nb, key_of(vb.prefix())), &ea, &eb, leftover);
            check_setops_ro(&va, &vb, &ea, &eb, env)?;
            if nav_b.is_empty() {
                // the whole map as operand: `AsView for &PrefixMap` instead of an explicit view
                env.ev("operand_is_map_reference");
                let lim2 = 4 * (ea.len() + eb.len()) + 64;
                let a1: Vec<Key> = va.union(&w.b.map).take(lim2).map(|i| key_of(i.prefix())).collect();
                let a2: Vec<Key> = va.union(vb.clone()).take(lim2).map(|i| key_of(i.prefix())).collect();
                ensure!(a1 == a2, "C05", "C05:union:map-reference-operand", "union with `&map` as operand yields {:?}, with `map.view()` {:?}", a1, a2);
                let b1: Vec<Key> = va.intersection(&w.b.map).take(lim2).map(|i| key_of(i.0)).collect();
                let b2: Vec<Key> = va.intersection(vb.clone()).take(lim2).map(|i| key_of(i.0)).collect();
                ensure!(b1 == b2, "C06", "C06:intersection:map-reference-operand", "intersection with `&map` as operand yields {:?}, with `map.view()` {:?}", b1, b2);
                let c1: Vec<Key> = va.difference(&w.b.map).take(lim2).map(|i| key_of(i.prefix)).collect();
                let c2: Vec<Key> = va.difference(vb.clone()).take(lim2).map(|i| key_of(i.prefix)).collect();
                ensure!(c1 == c2, "C07", "C07:difference:map-reference-operand", "difference with `&map` as operand yields {:?}, with `map.view()` {:?}", c1, c2);
                let d1: Vec<Key> = va.covering_difference(&w.b.map).take(lim2).map(|i| key_of(i.0)).collect();
                let d2: Vec<Key> = va.covering_difference(vb.clone()).take(lim2).map(|i| key_of(i.0)).collect();
                ensure!(d1 == d2, "C07", "C07:covering_difference:map-reference-operand", "covering_difference with `&map` as operand yields {:?}, with `map.view()` {:?}", d1, d2);
            }
            // mutable twins on the same navigation programs (C13: same prefixes / presence pattern)
            if env.focus.has(13) || env.focus.has(5) || env.focus.has(6) || env.focus.has(7) || env.focus.has(8) {
                // mutable twins must report bit-identical prefixes (it is the same stored entry)
                let ro_union: Vec<(Raw, bool, bool)> = va.union(vb.clone()).take(lim).map(|it| (raw_of(it.prefix()), !matches!(it, UnionItem::Right { .. }), !matches!(it, UnionItem::Left { .. }))).collect();
                let ro_inter: Vec<Raw> = va.intersection(vb.clone()).take(lim).map(|x| raw_of(x.0)).collect();
                let ro_diff: Vec<Raw> = va.difference(vb.clone()).take(lim).map(|x| raw_of(x.prefix)).collect();
                let ro_cdiff: Vec<Raw> = va.covering_difference(vb.clone()).take(lim).map(|x| raw_of(x.0)).collect();
                let World { a, b } = &mut *w;
                let c13 = env.focus.has(13);
                for kind in 0..4u8 {
                    env.cur_op = "view_mut";
                    let Some((mut ma_, _)) = nav_mut(a.map.view_mut(), nav_a, env) else {
                        return fail("C13", "C13:mut-nav-lost", "mutable navigation failed where the read-only one succeeded".into());
                    };
                    let Some((mb_, _)) = nav_mut(b.map.view_mut(), nav_b, env) else {
                        return fail("C13", "C13:mut-nav-lost", "mutable navigation failed where the read-only one succeeded".into());
                    };
                    match kind {
                        0 => {
                            env.cur_op = "union_mut";
                            let got: Vec<(Raw, bool, bool)> = ma_.union_mut(mb_).take(lim).map(|(p, l, r)| (raw_of(p), l.is_some(), r.is_some())).collect();
                            ensure!(got == ro_union, if c13 { "C13" } else { "C05" }, "mut-twin:union_mut vs union", "union_mut yields {:?}, union yields {:?}", got, ro_union);
                        }
                        1 => {
                            env.cur_op = "intersection_mut";
                            let got: Vec<Raw> = ma_.intersection_mut(mb_).take(lim).map(|(p, _, _)| raw_of(p)).collect();
                            ensure!(got == ro_inter, if c13 { "C13" } else { "C06" }, "mut-twin:intersection_mut vs intersection", "intersection_mut yields {:?}, intersection yields {:?}", got, ro_inter);
                        }
                        2 => {
                            env.cur_op = "difference_mut";
                            let items: Vec<_> = ma_.difference_mut(&mb_).take(lim).collect();
                            let got: Vec<Raw> = items.iter().map(|d| raw_of(d.prefix)).collect();
                            ensure!(got == ro_diff, if c13 { "C13" } else { "C07" }, "mut-twin:difference_mut vs difference", "difference_mut yields {:?}, difference yields {:?}", got, ro_diff);
                            if env.focus.has(8) {
                                for d in &items {
                                    check_lpm_annotation(env, "difference_mut.right", key_of(d.prefix), opt_pv(d.right), &eb, "right")?;
                                }
                            }
                        }
                        _ => {
                            env.cur_op = "covering_difference_mut";
                            let got: Vec<Raw> = ma_.covering_difference_mut(&mb_).take(lim).map(|(p, _)| raw_of(p)).collect();
                            ensure!(got == ro_cdiff, if c13 { "C13" } else { "C07" }, "mut-twin:covering_difference_mut vs covering_difference", "covering_difference_mut yields {:?}, covering_difference yields {:?}", got, ro_cdiff);
                        }
                    }
                }
            }
            Ok(())
}

/// Execute one pair case for prefix type P.
pub fn run_pair<P: TP>(pc: &PairCase, env: &mut Env) -> R {
    let mut w: World<P, u64, SV> = World::new();
    let saved_focus = env.focus;
    // build the operands without per-step observers beyond the baseline
    env.focus = Focus(0);
    let r = run_history(&mut w, &pc.case.ops, env);
    env.focus = saved_focus;
    if let Err(f) = r {
        // the operands could not be built consistently: belongs to another property
        return Err(crate::env::Fail {
            prop: "BUILD",
            sig: format!("BUILD:{}", f.sig),
            msg: f.msg,
        });
    }
    env.step = pc.case.ops.len();
    let na = node_map(&w.a.map)?;
    let nb = node_map(&w.b.map)?;
    let leftover = na.iter().any(|(k, v)| !*v && k.len > 0) || nb.iter().any(|(k, v)| !*v && k.len > 0);
    let lim = 4 * (w.a.model.len() + w.b.model.len()) + 64;
    match pc.mode {
        0 => {
            pair_two_maps(&mut w, &pc.nav_a, &pc.nav_b, &na, &nb, leftover, lim, env)?;
            // systematic sweep over pairs of roots of the same two maps: every node of each trie and the
            // position one bit above it (virtual unless it is a node itself), a seed-dependent dozen each
            let pick = |nodes: &BTreeMap<Key, bool>, salt: u64| -> Vec<Raw> {
                let mut v: Vec<Key> = Vec::new();
                for k in nodes.keys() {
                    v.push(*k);
                    if k.len > 0 {
                        v.push(Key::new(k.net, k.len - 1));
                    }
                }
                v.sort();
                v.dedup();
                let n = v.len();
                let mut out = Vec::new();
                let mut s = salt;
                while out.len() < 7.min(n) {
                    s = splitmix(s);
                    let k = v[(s % n as u64) as usize];
                    let r = Raw { bits: k.net, len: k.len };
                    if !out.contains(&r) {
                        out.push(r);
                    }
                }
                out
            };
            let salt = fp_str(&format!("{:?}{:?}", pc.nav_a, pc.nav_b));
            let (ra, rb) = (pick(&na, salt), pick(&nb, salt ^ 0x5555));
            for a in &ra {
                for b in &rb {
                    env.ev("root_sweep_pair");
                    pair_two_maps(&mut w, &[Nav::AtRaw(*a)], &[Nav::AtRaw(*b)], &na, &nb, leftover, lim, env)?;
                }
            }
        }
        1 => {
            env.ev("mode_same_map");
            let Some((va, sa)) = nav_ro((&w.a.map).view(), &pc.nav_a, env) else {
                env.ev("nav_lost");
                return Ok(());
            };
            let Some((vb, sb)) = nav_ro((&w.a.map).view(), &pc.nav_b, env) else {
                env.ev("nav_lost");
                return Ok(());
            };
            let ea = ents(&w.a.model, sa);
            let eb = ents(&w.a.model, sb);
            if view_ents(&va, lim) != ea.iter().map(|x| (x.0, x.2)).collect::<Vec<_>>() || view_ents(&vb, lim) != eb.iter().map(|x| (x.0, x.2)).collect::<Vec<_>>() {
                env.ev("discarded_view_mismatch");
                return Ok(());
            }
            classify(env, sa, sb, root_kind(&na, key_of(va.prefix())), root_kind(&na, key_of(vb.prefix())), &ea, &eb, leftover);
            if !covers(sa, sb) && !covers(sb, sa) {
                env.ev("c06_disjoint_views_of_one_map");
            }
            check_setops_ro(&va, &vb, &ea, &eb, env)?;
        }
        _ => {
            env.ev("mode_map_vs_set");
            let set: PrefixSet<P> = w.b.map.keys().cloned().collect();
            let Some((va, sa)) = nav_ro((&w.a.map).view(), &pc.nav_a, env) else {
                env.ev("nav_lost");
                return Ok(());
            };
            let ea = ents(&w.a.model, sa);
            if view_ents(&va, lim) != ea.iter().map(|x| (x.0, x.2)).collect::<Vec<_>>() {
                env.ev("discarded_view_mismatch");
                return Ok(());
            }
            let eb: Ent = w.b.model.seq().into_iter().map(|(k, r, _)| (k, r, 0)).collect();
            let vb: TrieView<'_, P, ()> = (&set).view();
            classify(env, sa, Key::ROOT, root_kind(&na, key_of(va.prefix())), "stored", &ea, &eb, leftover);
            check_setops_ro(&va, &vb, &ea, &eb, env)?;
        }
    }
    Ok(())
}

impl Val for () {
    fn mk(_: u64) -> Self {}
    fn id(&self) -> u64 {
        0
    }
}

pub struct PairSpec {
    pub id: &'static str,
    pub focus: Focus,
    pub accept: Vec<&'static str>,
    pub types: Vec<&'static str>,
    pub cases: u32,
    pub shards: u32,
    pub max_ops: usize,
    pub nontrivial: fn(&Events) -> bool,
    /// a panic inside one of these crate operations counts as a violation of this property
    pub panic_ops: Vec<&'static str>,
}

pub fn render_pair(pc: &PairCase, w: u8) -> String {
    format!("mode={} nav_a={:?} nav_b={:?} {}", pc.mode, pc.nav_a, pc.nav_b, crate::hist::render_case(&pc.case, w))
}

pub fn exec_pair<P: TP>(pc: &PairCase, spec: &PairSpec, known: &BTreeSet<String>, strict: bool) -> CaseResult {
    let uni = build_universe(&pc.case.usteps, P::W);
    let mut env = Env::new(spec.focus, uni);
    env.known = known.clone();
    env.strict = strict;
    let r = catch_unwind(AssertUnwindSafe(|| run_pair::<P>(pc, &mut env)));
    let mut res = CaseResult::default();
    match r {
        Ok(Ok(())) => {}
        Ok(Err(f)) => res.fail = Some(f),
        Err(_) => match panic_to_fail(env.cur_op, env.step, true) {
            Ok(f) => res.fail = Some(f),
            Err(hb) => res.harness_bug = Some(hb),
        },
    }
    if let Some(f) = &res.fail {
        if f.sig == "C20:panic:count-underflow-after-view-write" && !strict {
            res.fail = None;
        }
    }
    if let Some(f) = &mut res.fail {
        crate::hist::retag_panic(f, spec.id, &spec.panic_ops);
    }
    res.nontrivial = (spec.nontrivial)(&env.ev);
    res.known_hits = env.known_hits.clone();
    res.ev = env.ev;
    res.sample = render_pair(pc, P::W);
    res
}

pub fn exec_pair_dyn(pc: &PairCase, spec: &PairSpec, known: &BTreeSet<String>, strict: bool) -> CaseResult {
    fn go<P: TP>(pc: &PairCase, spec: &PairSpec, known: &BTreeSet<String>, strict: bool) -> CaseResult {
        exec_pair::<P>(pc, spec, known, strict)
    }
    let mut r = crate::dispatch_tp!(pc.case.ptype.as_str(), go, pc, spec, known, strict);
    if spec.id == "C18" {
        crate::hist::c18_twin(&mut r, || {
            let twin = crate::ops::strip_noise(pc);
            crate::dispatch_tp!(twin.case.ptype.as_str(), go, &twin, spec, known, strict)
        });
    }
    r
}

pub fn pair_weights() -> Weights {
    let mut w = Weights::full();
    w.b_share = 45;
    w.setop = 0;
    w.clear = 0;
    w.keep_tree = 10;
    w.view_remove = 6;
    w.insert = 40;
    w.from_iter = 0;
    w.collect = 0;
    w.clone_swap = 0;
    w
}

pub fn run_pair_check(spec: &PairSpec, seed: u64) -> Outcome {
    let known = known_sigs("*");
    let mut jobs = Vec::new();
    for t in &spec.types {
        for sh in 0..spec.shards {
            jobs.push((*t, sh));
        }
    }
    let accept = Accept {
        props: spec.accept.clone(),
    };
    let threads = std::thread::available_parallelism().map(|n| n.get()).unwrap_or(4).min(16);
    let weights = pair_weights();
    let mut o = run_parallel(jobs, threads, |(t, sh)| {
        let strat = pair_case(t, &weights, 16, spec.max_ops);
        let label = format!("{}-{}-{}", spec.id, t, sh);
        let mut o = run_shard(spec.id, &label, strat, spec.cases, seed.wrapping_mul(1_000_003).wrapping_add(sh as u64), &accept, &known, |c| exec_pair_dyn(c, spec, &known, false));
        o.classes.insert(format!("type:{t}"), o.evaluations);
        o
    });
    o.extra.insert("prefix_types".into(), serde_json::to_value(&spec.types).unwrap());
    o
}

pub fn replay_pair(spec: &PairSpec, path: &str) -> Outcome {
    let (_rf, pc): (ReplayFile, PairCase) = read_replay(path);
    let r = exec_pair_dyn(&pc, spec, &BTreeSet::new(), true);
    let mut o = Outcome::default();
    o.evaluations = 1;
    o.is_replay = true;
    o.harness_bug = r.harness_bug;
    if let Some(f) = r.fail {
        if spec.accept.iter().any(|p| *p == f.prop) {
            o.violation = Some(Violation {
                prop: f.prop.to_string(),
                sig: f.sig,
                msg: f.msg,
                replay: path.to_string(),
            });
        } else {
            println!("replay fails a foreign oracle {} [{}]: {}", f.prop, f.sig, f.msg);
        }
    }
    o
}
