//! C16 churn: unboundedly repeated insert/remove cycles over a bounded working set must reach a
//! steady state of the arena (and keep the slot partition invariant at every step).

use crate::engine::*;
use crate::ensure;
use crate::env::{Env, Focus, Side, R};
use crate::gen;
use crate::model::{key_of, mk, raw_of, Raw};
use crate::observe::check_arena;
use crate::ops::*;
use crate::tp::TP;
use proptest::prelude::*;
use serde::{Deserialize, Serialize};
use std::panic::{catch_unwind, AssertUnwindSafe};

#[derive(Clone, Debug, PartialEq, Eq, Serialize, Deserialize)]
pub struct ChurnCase {
    pub ptype: String,
    pub usteps: Vec<UStep>,
    /// how each phase removes the working set: 0 remove, 1 retain(nothing), 2 remove_children(/0-children), 3 mixed
    pub removal: u8,
    pub perm_seed: u64,
    pub phases: u16,
    /// keys that stay in the map during all phases (so that branch nodes are created and collapsed)
    pub resident: u8,
}

pub fn churn_case(ptype: &'static str, max_phases: u16) -> BoxedStrategy<ChurnCase> {
    (gen::usteps(3, 16), 0u8..4, any::<u64>(), 6u16..=max_phases, 0u8..4)
        .prop_map(move |(usteps, removal, perm_seed, phases, resident)| ChurnCase {
            ptype: ptype.to_string(),
            usteps,
            removal,
            perm_seed,
            phases,
            resident,
        })
        .boxed()
}

fn shuffle<T>(v: &mut [T], seed: u64) {
    let mut s = seed;
    for i in (1..v.len()).rev() {
        s = splitmix(s);
        v.swap(i, (s % (i as u64 + 1)) as usize);
    }
}

pub fn run_churn<P: TP>(c: &ChurnCase, env: &mut Env) -> R {
    let uni = build_universe(&c.usteps, P::W);
    // distinct keys of the working set
    let mut seen = std::collections::BTreeSet::new();
    let mut keys: Vec<Raw> = uni.iter().copied().filter(|r| seen.insert(r.key())).collect();
    let resident: Vec<Raw> = keys.drain(..(c.resident as usize).min(keys.len().saturating_sub(2))).collect();
    ensure!(true, "C16", "", "");
    let mut side: Side<P, u64> = Side::new("A");
    for r in &resident {
        side.map.insert(mk::<P>(*r), 1);
        side.model.insert(raw_of(&mk::<P>(*r)), 1);
    }
    side.canonical = true;
    let mut order_in = keys.clone();
    let mut order_out = keys.clone();
    shuffle(&mut order_in, c.perm_seed);
    shuffle(&mut order_out, c.perm_seed ^ 0xABCDEF);
    let mut arena_after: Vec<usize> = Vec::new();
    let mut peak_in_phase = 0usize;
    for phase in 0..c.phases as usize {
        env.step = phase;
        for (i, r) in order_in.iter().enumerate() {
            let p: P = mk(*r);
            env.cur_op = "insert";
            if i % 3 == 2 {
                side.map.entry(p.clone()).or_insert(7);
            } else {
                side.map.insert(p.clone(), 7);
            }
            side.model.insert(raw_of(&p), 7);
            check_arena(&mut side, env)?;
        }
        peak_in_phase = peak_in_phase.max(side.map.verif_arena().arena_len);
        match c.removal {
            0 => {
                for r in &order_out {
                    env.cur_op = "remove";
                    side.map.remove(&mk::<P>(*r));
                    side.model.remove(r.key());
                    check_arena(&mut side, env)?;
                }
            }
            1 => {
                env.cur_op = "retain";
                let keep: std::collections::BTreeSet<_> = resident.iter().map(|r| r.key()).collect();
                side.map.retain(|p, _| keep.contains(&key_of(p)));
                for r in &order_out {
                    side.model.remove(r.key());
                }
                check_arena(&mut side, env)?;
            }
            2 => {
                for r in &order_out {
                    env.cur_op = "remove_children";
                    if r.len == 0 || resident.iter().any(|x| r.key().covers(&x.key())) {
                        side.map.remove(&mk::<P>(*r));
                        side.model.remove(r.key());
                    } else {
                        side.map.remove_children(&mk::<P>(*r));
                        for k in side.model.children_keys(r.key()) {
                            side.model.remove(k);
                        }
                        side.canonical = false;
                    }
                    check_arena(&mut side, env)?;
                }
            }
            _ => {
                for (i, r) in order_out.iter().enumerate() {
                    env.cur_op = "remove";
                    if i % 2 == 0 {
                        side.map.remove(&mk::<P>(*r));
                    } else {
                        side.map.remove_keep_tree(&mk::<P>(*r));
                        side.map.insert(mk::<P>(*r), 9);
                        side.map.remove(&mk::<P>(*r));
                    }
                    side.model.remove(r.key());
                    check_arena(&mut side, env)?;
                }
            }
        }
        let a = side.map.verif_arena();
        arena_after.push(a.arena_len);
        ensure!(side.map.len() == resident.len() && side.map.iter().count() == resident.len(), "C01", "C01:contents", "phase {phase}: after removing the working set the map holds {} entries, {} resident", side.map.iter().count(), resident.len());
        // steady state: from the second phase on, the arena does not grow any more
        if phase >= 2 {
            ensure!(
                a.arena_len == arena_after[1],
                "C16",
                "C16:churn:arena-grows",
                "churn over a working set of {} keys ({} resident): arena length after phase {} is {}, after phase 2 it was {} (lengths per phase: {:?})",
                keys.len(),
                resident.len(),
                phase + 1,
                a.arena_len,
                arena_after[1],
                arena_after
            );
        }
    }
    if keys.len() >= 3 {
        env.ev("churn_working_set_ge3");
    }
    if !resident.is_empty() {
        env.ev("churn_with_resident_keys");
    }
    env.evn("churn_phases", c.phases as u64);
    env.cur_op = "";
    Ok(())
}

pub fn exec_churn<P: TP>(c: &ChurnCase) -> CaseResult {
    let mut env = Env::new(Focus::of(&[16]), vec![]);
    let r = catch_unwind(AssertUnwindSafe(|| run_churn::<P>(c, &mut env)));
    let mut res = CaseResult::default();
    match r {
        Ok(Ok(())) => {}
        Ok(Err(f)) => res.fail = Some(f),
        Err(_) => match crate::hist::panic_to_fail(env.cur_op, env.step, false) {
            Ok(f) => res.fail = Some(f),
            Err(hb) => res.harness_bug = Some(hb),
        },
    }
    res.nontrivial = env.has_ev("churn_working_set_ge3");
    res.ev = env.ev;
    res.sample = format!("churn type={} removal={} phases={} resident={} universe={:?}", c.ptype, c.removal, c.phases, c.resident, build_universe(&c.usteps, P::W).iter().map(|r| r.key().show()).collect::<Vec<_>>());
    res
}

pub fn exec_churn_dyn(c: &ChurnCase) -> CaseResult {
    fn go<P: TP>(c: &ChurnCase) -> CaseResult {
        exec_churn::<P>(c)
    }
    crate::dispatch_tp!(c.ptype.as_str(), go, c)
}

pub fn run_churn_check(tier: &str, seed: u64) -> Outcome {
    let (cases, shards, phases) = if tier == "thorough" { (400u32, 16u32, 400u16) } else { (150, 2, 40) };
    let threads = std::thread::available_parallelism().map(|n| n.get()).unwrap_or(4).min(16);
    let mut jobs = Vec::new();
    for t in crate::tp::ALL_TYPES {
        for sh in 0..shards {
            jobs.push((t, sh));
        }
    }
    let accept = Accept::one("C16");
    let known = known_sigs("*");
    run_parallel(jobs, threads, |(t, sh)| {
        let label = format!("C16churn-{t}-{sh}");
        run_shard("C16", &label, churn_case(t, phases), cases, seed.wrapping_mul(1_000_003).wrapping_add(sh as u64), &accept, &known, exec_churn_dyn)
    })
}

pub fn replay_churn(path: &str) -> Outcome {
    let (_rf, c): (ReplayFile, ChurnCase) = read_replay(path);
    let r = exec_churn_dyn(&c);
    let mut o = Outcome::default();
    o.evaluations = 1;
    o.is_replay = true;
    o.harness_bug = r.harness_bug;
    if let Some(f) = r.fail {
        if f.prop == "C16" {
            o.violation = Some(Violation {
                prop: f.prop.to_string(),
                sig: f.sig,
                msg: f.msg,
                replay: path.to_string(),
            });
        }
    }
    o
}
