//! Serializable case descriptions: prefix universes, operations, navigation programs.

use crate::model::Raw;
use crate::tp::{len_mask, width_mask};
use serde::{Deserialize, Serialize};

/// Reference to a member of the case's prefix universe plus host-bit noise for this use.
#[derive(Clone, Copy, Debug, PartialEq, Eq, Hash, Serialize, Deserialize)]
pub struct PRef {
    pub i: u16,
    pub noise: u8,
}

pub fn splitmix(mut x: u64) -> u64 {
    x = x.wrapping_add(0x9E3779B97F4A7C15);
    let mut z = x;
    z = (z ^ (z >> 30)).wrapping_mul(0xBF58476D1CE4E5B9);
    z = (z ^ (z >> 27)).wrapping_mul(0x94D049BB133111EB);
    z ^ (z >> 31)
}

pub fn noise_bits(noise: u8) -> u128 {
    match noise {
        0 => 0,
        1 => !0,
        n => {
            let a = splitmix(n as u64) as u128;
            let b = splitmix(n as u64 ^ 0xABCD) as u128;
            (a << 64) | b
        }
    }
}

/// Monotone index mapping (shrinks towards 0; never `%`).
pub fn map_idx(i: u16, len: usize) -> usize {
    if len == 0 {
        0
    } else {
        ((i as usize) * len) >> 16
    }
}

pub fn resolve(uni: &[Raw], p: PRef, width: u8) -> Raw {
    let base = if uni.is_empty() {
        Raw { bits: 0, len: 0 }
    } else {
        uni[map_idx(p.i, uni.len())]
    };
    let m = len_mask(base.len);
    let bits = ((base.bits & m) | (noise_bits(p.noise) & !m)) & width_mask(width);
    Raw {
        bits,
        len: base.len,
    }
}

/// One derivation step of the universe random walk.
#[derive(Clone, Copy, Debug, PartialEq, Eq, Serialize, Deserialize)]
pub struct UStep {
    pub kind: u8,
    pub parent: u16,
    pub a: u8,
    #[serde(with = "crate::model::hex128")]
    pub bits: u128,
}

/// Turn derivation steps into concrete prefixes of width `w`.
pub fn build_universe(steps: &[UStep], w: u8) -> Vec<Raw> {
    let wm = width_mask(w);
    let scale_len = |a: u8| -> u8 { (((a as u32) * (w as u32 + 1)) >> 8) as u8 };
    let mut out: Vec<Raw> = Vec::with_capacity(steps.len());
    for s in steps {
        let parent = if out.is_empty() {
            Raw { bits: 0, len: 0 }
        } else {
            out[map_idx(s.parent, out.len())]
        };
        let pk = parent.bits & len_mask(parent.len);
        let r = match s.kind % 12 {
            // seeds with boundary patterns
            0 => {
                let pat = match s.a % 6 {
                    0 => 0u128,
                    1 => !0u128,
                    2 => 1u128 << 127,
                    3 => !(1u128 << 127),
                    4 => 0xAAAA_AAAA_AAAA_AAAA_AAAA_AAAA_AAAA_AAAAu128,
                    _ => s.bits,
                };
                let len = match (s.a / 6) % 6 {
                    0 => 0,
                    1 => 1.min(w),
                    2 => w - 1,
                    3 => w,
                    4 => w / 2,
                    _ => scale_len(s.bits as u8),
                };
                Raw { bits: pat, len }
            }
            // random address, scaled length
            1 => Raw {
                bits: s.bits,
                len: scale_len(s.a),
            },
            // truncate parent by 1..=4 bits
            2 => {
                let k = 1 + (s.a % 4);
                Raw {
                    bits: pk,
                    len: parent.len.saturating_sub(k),
                }
            }
            // extend by one bit 0 / 1
            3 | 4 => {
                if parent.len >= w {
                    parent
                } else {
                    let bit = if s.kind % 12 == 4 { 1u128 << (127 - parent.len as u32) } else { 0 };
                    Raw {
                        bits: pk | bit,
                        len: parent.len + 1,
                    }
                }
            }
            // extend by several random bits
            5 => {
                let k = 1 + (s.a % 8);
                let nl = (parent.len as u32 + k as u32).min(w as u32) as u8;
                Raw {
                    bits: pk | (s.bits & !len_mask(parent.len)),
                    len: nl,
                }
            }
            // sibling: flip the last bit
            6 => {
                if parent.len == 0 {
                    parent
                } else {
                    Raw {
                        bits: pk ^ (1u128 << (128 - parent.len as u32)),
                        len: parent.len,
                    }
                }
            }
            // jump to full length below parent
            7 => Raw {
                bits: pk | (s.bits & !len_mask(parent.len)),
                len: w,
            },
            // the zero-length prefix
            8 => Raw { bits: s.bits, len: 0 },
            // same key again (different representation later through noise)
            9 => parent,
            // extend to w-1
            10 => Raw {
                bits: pk | (s.bits & !len_mask(parent.len)),
                len: (w - 1).max(parent.len),
            },
            // truncate to a scaled length
            _ => {
                let l = scale_len(s.a).min(parent.len);
                Raw { bits: pk, len: l }
            }
        };
        let len = r.len.min(w);
        out.push(Raw {
            bits: r.bits & wm,
            len,
        });
    }
    out
}

#[derive(Clone, Copy, Debug, PartialEq, Eq, Hash, Serialize, Deserialize)]
pub enum M {
    A,
    B,
}

#[derive(Clone, Copy, Debug, PartialEq, Eq, Hash, Serialize, Deserialize)]
pub enum Pred {
    HashBit(u8),
    LenLe(u8),
    CoveredBy(PRef),
    NotCoveredBy(PRef),
    All,
    Nothing,
}

#[derive(Clone, Copy, Debug, PartialEq, Eq, Hash, Serialize, Deserialize)]
pub enum VacAct {
    Insert,
    InsertWith,
    Default,
    Key,
}

#[derive(Clone, Copy, Debug, PartialEq, Eq, Hash, Serialize, Deserialize)]
pub enum OccAct {
    Get,
    GetMutWrite,
    Key,
    Insert,
    Remove,
}

#[derive(Clone, Debug, PartialEq, Eq, Hash, Serialize, Deserialize)]
pub enum EntryAct {
    Insert,
    OrInsert { write: bool },
    OrInsertWith { write: bool },
    OrDefault { write: bool },
    AndModifyOrInsert,
    AndModifyGet,
    Get,
    GetMutWrite,
    Key,
    Match { vac: VacAct, occ: Vec<OccAct> },
}

#[derive(Clone, Copy, Debug, PartialEq, Eq, Hash, Serialize, Deserialize)]
pub enum Nav {
    At(PRef),
    /// view_at / view_mut_at on the prefix cut by 1..=8 bits: usually a virtual position on an edge
    AtCut(PRef, u8),
    /// view_at / view_mut_at on an explicit prefix (used by the systematic root sweep)
    AtRaw(Raw),
    Find(PRef),
    FindExact(PRef),
    FindLpm(PRef),
    Left,
    Right,
    SplitLeft,
    SplitRight,
}

#[derive(Clone, Copy, Debug, PartialEq, Eq, Hash, Serialize, Deserialize)]
pub enum ViewAct {
    Nothing,
    Set,
    Remove,
    ValueMut,
    PrefixValueMut,
    IterMut(u64),
    ValuesMut(u64),
    IntoIter(u64),
}

#[derive(Clone, Copy, Debug, PartialEq, Eq, Hash, Serialize, Deserialize)]
pub enum SetKind {
    Union,
    Intersection,
    Difference,
    CoveringDifference,
}

#[derive(Clone, Copy, Debug, PartialEq, Eq, Hash, Serialize, Deserialize)]
pub enum Operands {
    /// left = view of A, right = view of B
    AB,
    /// both halves of a split of a view of A
    SplitA,
    /// both halves of a split of a view of B
    SplitB,
}

#[derive(Clone, Debug, PartialEq, Eq, Hash, Serialize, Deserialize)]
pub enum Op {
    Insert { m: M, p: PRef },
    Remove { m: M, p: PRef },
    RemoveKeepTree { m: M, p: PRef },
    RemoveChildren { m: M, p: PRef },
    Retain { m: M, pred: Pred },
    Clear { m: M },
    Entry { m: M, p: PRef, act: EntryAct },
    GetMut { m: M, p: PRef },
    GetLpmMut { m: M, p: PRef },
    IterMut { m: M, mask: u64 },
    ValuesMut { m: M, mask: u64 },
    ChildrenMut { m: M, p: PRef, mask: u64 },
    ViewMut { m: M, nav: Vec<Nav>, act: ViewAct },
    SetOpMut { kind: SetKind, ops: Operands, nav_a: Vec<Nav>, nav_b: Vec<Nav>, mask: u64 },
    CloneSwap { m: M },
    Collect { m: M },
    FromIter { m: M, items: Vec<PRef> },
    /// insert `n` pseudo-random distinct prefixes below `under` (scale: hundreds of entries)
    BulkInsert { m: M, under: PRef, n: u16, seed: u64 },
    /// insert the complete chain of nested prefixes (every length 0..=W) along one address, in a
    /// seed-dependent order; the chain members are appended to the case's universe
    ChainInsert { m: M, along: PRef, seed: u64 },
}

impl Op {
    pub fn kind_name(&self) -> &'static str {
        match self {
            Op::Insert { .. } => "insert",
            Op::Remove { .. } => "remove",
            Op::RemoveKeepTree { .. } => "remove_keep_tree",
            Op::RemoveChildren { .. } => "remove_children",
            Op::Retain { .. } => "retain",
            Op::Clear { .. } => "clear",
            Op::Entry { act, .. } => match act {
                EntryAct::Insert => "entry.insert",
                EntryAct::OrInsert { .. } => "entry.or_insert",
                EntryAct::OrInsertWith { .. } => "entry.or_insert_with",
                EntryAct::OrDefault { .. } => "entry.or_default",
                EntryAct::AndModifyOrInsert => "entry.and_modify.or_insert",
                EntryAct::AndModifyGet => "entry.and_modify.get",
                EntryAct::Get => "entry.get",
                EntryAct::GetMutWrite => "entry.get_mut",
                EntryAct::Key => "entry.key",
                EntryAct::Match { .. } => "entry.match",
            },
            Op::GetMut { .. } => "get_mut",
            Op::GetLpmMut { .. } => "get_lpm_mut",
            Op::IterMut { .. } => "iter_mut",
            Op::ValuesMut { .. } => "values_mut",
            Op::ChildrenMut { .. } => "children_mut",
            Op::ViewMut { act, .. } => match act {
                ViewAct::Nothing => "view_mut.nav",
                ViewAct::Set => "view_mut.set",
                ViewAct::Remove => "view_mut.remove",
                ViewAct::ValueMut => "view_mut.value_mut",
                ViewAct::PrefixValueMut => "view_mut.prefix_value_mut",
                ViewAct::IterMut(_) => "view_mut.iter_mut",
                ViewAct::ValuesMut(_) => "view_mut.values_mut",
                ViewAct::IntoIter(_) => "view_mut.into_iter",
            },
            Op::SetOpMut { kind, .. } => match kind {
                SetKind::Union => "union_mut",
                SetKind::Intersection => "intersection_mut",
                SetKind::Difference => "difference_mut",
                SetKind::CoveringDifference => "covering_difference_mut",
            },
            Op::CloneSwap { .. } => "clone_swap",
            Op::Collect { .. } => "collect",
            Op::FromIter { .. } => "from_iter",
            Op::BulkInsert { .. } => "bulk_insert",
            Op::ChainInsert { .. } => "chain_insert",
        }
    }
    pub fn side(&self) -> Option<M> {
        match self {
            Op::Insert { m, .. }
            | Op::Remove { m, .. }
            | Op::RemoveKeepTree { m, .. }
            | Op::RemoveChildren { m, .. }
            | Op::Retain { m, .. }
            | Op::Clear { m }
            | Op::Entry { m, .. }
            | Op::GetMut { m, .. }
            | Op::GetLpmMut { m, .. }
            | Op::IterMut { m, .. }
            | Op::ValuesMut { m, .. }
            | Op::ChildrenMut { m, .. }
            | Op::ViewMut { m, .. }
            | Op::CloneSwap { m }
            | Op::Collect { m }
            | Op::FromIter { m, .. }
            | Op::BulkInsert { m, .. }
            | Op::ChainInsert { m, .. } => Some(*m),
            Op::SetOpMut { .. } => None,
        }
    }
}

/// A complete generated case for the history interpreter.
#[derive(Clone, Debug, PartialEq, Eq, Serialize, Deserialize)]
pub struct Case {
    pub ptype: String,
    pub usteps: Vec<UStep>,
    pub ops: Vec<Op>,
    /// extra generated material for the check at hand (queries, nav programs, injection index ...)
    #[serde(default)]
    pub extra: Vec<u64>,
}

/// The same case with every prefix use stripped of its host-bit noise (metamorphic twin for C18).
pub fn strip_noise<T: Serialize + serde::de::DeserializeOwned>(c: &T) -> T {
    fn walk(v: &mut serde_json::Value) {
        match v {
            serde_json::Value::Object(m) => {
                if m.contains_key("noise") && m.contains_key("i") {
                    m.insert("noise".into(), 0.into());
                }
                for (_, x) in m.iter_mut() {
                    walk(x);
                }
            }
            serde_json::Value::Array(a) => a.iter_mut().for_each(walk),
            _ => {}
        }
    }
    let mut v = serde_json::to_value(c).expect("serialize case");
    walk(&mut v);
    serde_json::from_value(v).expect("deserialize case")
}

/// the prefix `p` of the universe truncated by `(k % 8) + 1` bits (never below length 0)
pub fn resolve_cut(uni: &[Raw], p: PRef, k: u8, width: u8) -> Raw {
    let r = resolve(uni, p, width);
    let cut = (k % 8) + 1;
    let len = r.len.saturating_sub(cut);
    Raw { bits: r.bits, len }
}
