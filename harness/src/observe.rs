//! Per-step observers: every oracle that looks at one map state (C01-C04, C09, C10, C15, C16, C18).

use crate::ensure;
use crate::env::{fail, query_set, Env, Fail, Side, Val, R};
use crate::model::{
    canonical_shape, covers, key_of, mk, raw_of, shape_wellformed, Key, Model, Raw, Shape,
};
use crate::tp::TP;
use prefix_trie::map::Entry;
use prefix_trie::{AsView, PrefixMap, TrieView};
use std::collections::BTreeSet;

/// Walk the tree through views. Bounded, so a cyclic structure is reported instead of looping.
pub fn shape_of<P: TP, V: Val>(map: &PrefixMap<P, V>) -> R<Shape> {
    let mut budget = 100_000usize;
    walk(map.view(), &mut budget, 0)
}

pub fn walk<P: TP, V>(v: TrieView<'_, P, V>, budget: &mut usize, depth: u32) -> R<Shape> {
    if *budget == 0 || depth > 300 {
        return fail(
            "C15",
            "C15:walk:diverges",
            "view walk exceeds its budget (cycle or over-deep path)".into(),
        );
    }
    *budget -= 1;
    let key = key_of(v.prefix());
    let has_value = v.value().is_some();
    let left = match v.left() {
        Some(l) => Some(Box::new(walk(l, budget, depth + 1)?)),
        None => None,
    };
    let right = match v.right() {
        Some(r) => Some(Box::new(walk(r, budget, depth + 1)?)),
        None => None,
    };
    Ok(Shape {
        key,
        has_value,
        left,
        right,
    })
}

/// Contents of the map through `iter()`, as (raw prefix, value id).
pub fn contents<P: TP, V: Val>(map: &PrefixMap<P, V>, limit: usize) -> R<Vec<(Raw, u64)>> {
    let mut out = Vec::new();
    for (p, v) in map.iter() {
        out.push((raw_of(p), v.id()));
        if out.len() > limit {
            return fail(
                "C20",
                "C20:iter:diverges",
                format!("iter() yields more than {limit} items"),
            );
        }
    }
    Ok(out)
}

pub fn iter_limit(model: &Model) -> usize {
    4 * model.len() + 64
}

/// Baseline: the map holds exactly the model's entries (keys in network form, values). Always run.
pub fn check_contents<P: TP, V: Val>(side: &Side<P, V>, env: &Env) -> R {
    let got = contents(&side.map, iter_limit(&side.model))?;
    let want = side.model.seq();
    let gk: Vec<(Key, u64)> = got.iter().map(|(r, v)| (r.key(), *v)).collect();
    let wk: Vec<(Key, u64)> = want.iter().map(|(k, _, v)| (*k, *v)).collect();
    if gk != wk {
        // decide whether it is an order problem (C03) or a content problem (C01)
        let mut gs = gk.clone();
        gs.sort();
        let mut ws = wk.clone();
        ws.sort();
        let (prop, sig) = if gs == ws {
            ("C03", "C03:iter:order")
        } else {
            ("C01", "C01:contents")
        };
        return fail(
            prop,
            sig,
            format!(
                "step {} map {}: iter() = {:?} but model = {:?}",
                env.step, side.name, gk, wk
            ),
        );
    }
    if env.focus.has(18) {
        for ((r, _), (k, repr, _)) in got.iter().zip(want.iter()) {
            ensure!(
                r.bits == *repr,
                "C18",
                "C18:iter:repr",
                "step {} map {}: iter() reports {:?} as bits {:x} but the last inserted representation is {:x}",
                env.step,
                side.name,
                k,
                r.bits,
                repr
            );
        }
    }
    Ok(())
}

fn opt_kv<P: TP, V: Val>(x: Option<(&P, &V)>) -> Option<(Raw, u64)> {
    x.map(|(p, v)| (raw_of(p), v.id()))
}

fn cmp_entry(
    env: &Env,
    what: &str,
    prop: &'static str,
    q: Raw,
    got: Option<(Raw, u64)>,
    want: Option<(Key, u128, u64)>,
) -> R {
    let g = got.map(|(r, v)| (r.key(), v));
    let w = want.map(|(k, _, v)| (k, v));
    if g != w {
        return fail(
            prop,
            &format!("{prop}:{what}"),
            format!(
                "step {}: {what}({:?} bits {:x}/{}) = {:?}, model says {:?}",
                env.step,
                q.key(),
                q.bits,
                q.len,
                g,
                w
            ),
        );
    }
    if env.focus.has(18) {
        if let (Some((r, _)), Some((k, repr, _))) = (got, want) {
            ensure!(
                r.bits == repr,
                "C18",
                format!("C18:{what}:repr"),
                "step {}: {what}({:?}) reports stored entry {:?} with bits {:x}, last inserted representation is {:x} (query bits {:x})",
                env.step,
                q.key(),
                k,
                r.bits,
                repr,
                q.bits
            );
        }
    }
    Ok(())
}

fn st(k: Key, s: &crate::model::Stored) -> (Key, u128, u64) {
    (k, s.repr, s.value)
}

/// All query-based observers, selected by focus.
pub fn check_queries<P: TP, V: Val>(side: &mut Side<P, V>, env: &mut Env, queries: &[Raw]) -> R {
    let f = env.focus;
    let do_exact = f.has(1) || f.has(18);
    let do_lpm = f.has(2) || f.has(18);
    let do_cover = f.has(9) || f.has(18);
    let do_children = f.has(10) || f.has(18);
    if !(do_exact || do_lpm || do_cover || do_children) {
        return Ok(());
    }
    let mut into_children_budget = 3usize;
    for (qi, q) in queries.iter().enumerate() {
        let qk = q.key();
        let p: P = mk(*q);
        if do_exact {
            let want = side.model.get(qk).map(|s| st(qk, s));
            env.cur_op = "get";
            let got = side.map.get(&p).map(|v| v.id());
            ensure!(
                got == want.map(|w| w.2),
                "C01",
                "C01:get",
                "step {}: get({:?}) = {:?}, model {:?}",
                env.step,
                qk,
                got,
                want
            );
            env.cur_op = "get_key_value";
            cmp_entry(env, "get_key_value", "C01", *q, opt_kv(side.map.get_key_value(&p)), want)?;
            env.cur_op = "contains_key";
            ensure!(
                side.map.contains_key(&p) == want.is_some(),
                "C01",
                "C01:contains_key",
                "step {}: contains_key({:?}) != {}",
                env.step,
                qk,
                want.is_some()
            );
            env.cur_op = "get_mut";
            let got = side.map.get_mut(&p).map(|v| v.id());
            ensure!(
                got == want.map(|w| w.2),
                "C01",
                "C01:get_mut",
                "step {}: get_mut({:?}) = {:?}, model {:?}",
                env.step,
                qk,
                got,
                want
            );
            env.cur_op = "entry";
            let e = side.map.entry(p.clone());
            let eg = e.get().map(|v| v.id());
            ensure!(
                eg == want.map(|w| w.2),
                "C01",
                "C01:entry.get",
                "step {}: entry({:?}).get() = {:?}, model {:?}",
                env.step,
                qk,
                eg,
                want
            );
            let ek = raw_of(e.key());
            ensure!(
                ek.key() == qk,
                "C01",
                "C01:entry.key",
                "step {}: entry({:?}).key() = {:?}",
                env.step,
                qk,
                ek.key()
            );
            match (&e, want) {
                (Entry::Occupied(_), Some((_, repr, _))) => {
                    if f.has(18) {
                        ensure!(
                            ek.bits == repr,
                            "C18",
                            "C18:entry.key:repr",
                            "step {}: occupied entry({:?} bits {:x}).key() has bits {:x}, stored representation is {:x}",
                            env.step,
                            qk,
                            q.bits,
                            ek.bits,
                            repr
                        );
                    }
                }
                (Entry::Vacant(_), None) => {}
                (Entry::Occupied(_), None) => {
                    return fail(
                        "C01",
                        "C01:entry.variant",
                        format!("step {}: entry({:?}) is Occupied but the key is absent", env.step, qk),
                    )
                }
                (Entry::Vacant(_), Some(_)) => {
                    return fail(
                        "C01",
                        "C01:entry.variant",
                        format!("step {}: entry({:?}) is Vacant but the key is stored", env.step, qk),
                    )
                }
            }
            drop(e);
        }
        if do_lpm {
            let want = side.model.lpm(qk).map(|(k, s)| st(k, s));
            env.cur_op = "get_lpm";
            cmp_entry(env, "get_lpm", "C02", *q, opt_kv(side.map.get_lpm(&p)), want)?;
            env.cur_op = "get_lpm_prefix";
            let got = side.map.get_lpm_prefix(&p).map(|p| (raw_of(p), want.map_or(0, |w| w.2)));
            cmp_entry(env, "get_lpm_prefix", "C02", *q, got, want)?;
            env.cur_op = "get_lpm_mut";
            let got = side.map.get_lpm_mut(&p).map(|(p, v)| (raw_of(p), v.id()));
            cmp_entry(env, "get_lpm_mut", "C02", *q, got, want)?;
            if let Some((k, _, _)) = want {
                if k.len < qk.len && side.model.cover(qk).len() >= 2 {
                    env.ev("lpm_nested_cover");
                }
            } else if !side.model.m.is_empty() {
                env.ev("lpm_none_nonempty");
            }
        }
        if do_cover {
            let want: Vec<(Key, u128, u64)> =
                side.model.cover(qk).into_iter().map(|(k, s)| st(k, s)).collect();
            env.cur_op = "cover";
            let mut it = side.map.cover(&p);
            let mut got: Vec<(Raw, u64)> = Vec::new();
            while let Some((pp, v)) = it.next() {
                got.push((raw_of(pp), v.id()));
                if got.len() > 300 {
                    return fail("C20", "C20:cover:diverges", "cover() yields > 300 items".into());
                }
            }
            for _ in 0..2 {
                ensure!(
                    it.next().is_none(),
                    "C09",
                    "C09:cover:fused",
                    "step {}: cover({:?}) yields an item after None",
                    env.step,
                    qk
                );
            }
            let gk: Vec<(Key, u64)> = got.iter().map(|(r, v)| (r.key(), *v)).collect();
            let wk: Vec<(Key, u64)> = want.iter().map(|(k, _, v)| (*k, *v)).collect();
            ensure!(
                gk == wk,
                "C09",
                "C09:cover",
                "step {}: cover({:?}) = {:?}, model {:?}",
                env.step,
                qk,
                gk,
                wk
            );
            if f.has(18) {
                for ((r, _), (k, repr, _)) in got.iter().zip(want.iter()) {
                    ensure!(
                        r.bits == *repr,
                        "C18",
                        "C18:cover:repr",
                        "step {}: cover({:?}) reports {:?} with bits {:x}, stored {:x}",
                        env.step,
                        qk,
                        k,
                        r.bits,
                        repr
                    );
                }
            }
            env.cur_op = "cover_keys";
            let ck: Vec<Key> = side.map.cover_keys(&p).take(300).map(|p| key_of(p)).collect();
            let wkk: Vec<Key> = want.iter().map(|w| w.0).collect();
            ensure!(
                ck == wkk,
                "C09",
                "C09:cover_keys",
                "step {}: cover_keys({:?}) = {:?}, model {:?}",
                env.step,
                qk,
                ck,
                wkk
            );
            env.cur_op = "cover_values";
            let cv: Vec<u64> = side.map.cover_values(&p).take(300).map(|v| v.id()).collect();
            let wv: Vec<u64> = want.iter().map(|w| w.2).collect();
            ensure!(
                cv == wv,
                "C09",
                "C09:cover_values",
                "step {}: cover_values({:?}) = {:?}, model {:?}",
                env.step,
                qk,
                cv,
                wv
            );
            env.cur_op = "get_spm";
            cmp_entry(env, "get_spm", "C09", *q, opt_kv(side.map.get_spm(&p)), want.first().copied())?;
            env.cur_op = "get_spm_prefix";
            let got = side
                .map
                .get_spm_prefix(&p)
                .map(|p| (raw_of(p), want.first().map_or(0, |w| w.2)));
            cmp_entry(env, "get_spm_prefix", "C09", *q, got, want.first().copied())?;
            env.cur_op = "get_lpm";
            cmp_entry(env, "get_lpm(last of cover)", "C09", *q, opt_kv(side.map.get_lpm(&p)), want.last().copied())?;
            env.cur_op = "get_lpm_prefix";
            let got = side.map.get_lpm_prefix(&p).map(|p| (raw_of(p), want.last().map_or(0, |w| w.2)));
            cmp_entry(env, "get_lpm_prefix(last of cover)", "C09", *q, got, want.last().copied())?;
            env.cur_op = "get_lpm_mut";
            let got = side.map.get_lpm_mut(&p).map(|(p, v)| (raw_of(p), v.id()));
            cmp_entry(env, "get_lpm_mut(last of cover)", "C09", *q, got, want.last().copied())?;
            if want.len() >= 2 {
                env.ev("cover_ge2");
            }
            if want.first().map_or(false, |w| w.0.len == 0) {
                env.ev("cover_root_populated");
            }
        }
        if do_children {
            let want: Vec<(Key, u128, u64)> =
                side.model.children(qk).into_iter().map(|(k, s)| st(k, s)).collect();
            let lim = iter_limit(&side.model);
            env.cur_op = "children";
            let mut it = side.map.children(&p);
            let mut got: Vec<(Raw, u64)> = Vec::new();
            while let Some((pp, v)) = it.next() {
                got.push((raw_of(pp), v.id()));
                if got.len() > lim {
                    return fail("C20", "C20:children:diverges", "children() does not end".into());
                }
            }
            ensure!(
                it.next().is_none(),
                "C10",
                "C10:children:fused",
                "children yields after None"
            );
            let gk: Vec<(Key, u64)> = got.iter().map(|(r, v)| (r.key(), *v)).collect();
            let wk: Vec<(Key, u64)> = want.iter().map(|(k, _, v)| (*k, *v)).collect();
            ensure!(
                gk == wk,
                "C10",
                "C10:children",
                "step {}: children({:?}) = {:?}, model {:?}",
                env.step,
                qk,
                gk,
                wk
            );
            if f.has(18) {
                for ((r, _), (k, repr, _)) in got.iter().zip(want.iter()) {
                    ensure!(
                        r.bits == *repr,
                        "C18",
                        "C18:children:repr",
                        "step {}: children({:?}) reports {:?} with bits {:x}, stored {:x}",
                        env.step,
                        qk,
                        k,
                        r.bits,
                        repr
                    );
                }
            }
            env.cur_op = "children_mut";
            let gm: Vec<(Key, u64)> = side
                .map
                .children_mut(&p)
                .take(lim + 1)
                .map(|(p, v)| (key_of(p), v.id()))
                .collect();
            ensure!(
                gm == wk,
                "C10",
                "C10:children_mut",
                "step {}: children_mut({:?}) = {:?}, model {:?}",
                env.step,
                qk,
                gm,
                wk
            );
            if f.has(10) && into_children_budget > 0 && (qi % 7 == (env.step % 7)) {
                into_children_budget -= 1;
                env.cur_op = "into_children";
                let gi: Vec<(Key, u64)> = side
                    .map
                    .clone()
                    .into_children(&p)
                    .take(lim + 1)
                    .map(|(p, v)| (key_of(&p), v.id()))
                    .collect();
                ensure!(
                    gi == wk,
                    "C10",
                    "C10:into_children",
                    "step {}: into_children({:?}) = {:?}, model {:?}",
                    env.step,
                    qk,
                    gi,
                    wk
                );
            }
            if !want.is_empty() && want.len() < side.model.len() {
                env.ev("children_strict_subset");
                if !side.model.m.contains_key(&qk) {
                    env.ev("children_selector_not_stored");
                }
            }
        }
    }
    env.cur_op = "";
    Ok(())
}

/// C03: every traversal yields the model's sequence, then None forever; clones agree.
pub fn check_traversals<P: TP, V: Val>(side: &mut Side<P, V>, env: &mut Env, salt: u64) -> R {
    let want = side.model.seq();
    let wk: Vec<(Key, u64)> = want.iter().map(|(k, _, v)| (*k, *v)).collect();
    let wkeys: Vec<Key> = wk.iter().map(|x| x.0).collect();
    let wvals: Vec<u64> = wk.iter().map(|x| x.1).collect();
    let lim = iter_limit(&side.model);
    let step = env.step;
    let name = side.name;
    macro_rules! drain {
        ($what:expr, $it:expr, $conv:expr, $want:expr) => {{
            env.cur_op = $what;
            let mut it = $it;
            let mut got = Vec::new();
            while let Some(x) = it.next() {
                got.push($conv(x));
                if got.len() > lim {
                    return fail("C20", &format!("C20:{}:diverges", $what), format!("{} does not end", $what));
                }
            }
            for _ in 0..3 {
                ensure!(
                    it.next().is_none(),
                    "C03",
                    format!("C03:{}:fused", $what),
                    "step {step} map {name}: {} yields an item after returning None",
                    $what
                );
            }
            ensure!(
                got == $want,
                "C03",
                format!("C03:{}", $what),
                "step {step} map {name}: {} = {:?}, model {:?}",
                $what,
                got,
                $want
            );
        }};
    }
    drain!("iter", side.map.iter(), |(p, v): (&P, &V)| (key_of(p), v.id()), wk);
    drain!("keys", side.map.keys(), |p: &P| key_of(p), wkeys);
    drain!("values", side.map.values(), |v: &V| v.id(), wvals);
    drain!("iter_mut", side.map.iter_mut(), |(p, v): (&P, &mut V)| (key_of(p), v.id()), wk);
    drain!("values_mut", side.map.values_mut(), |v: &mut V| v.id(), wvals);
    drain!("ref_into_iter", (&side.map).into_iter(), |(p, v): (&P, &V)| (key_of(p), v.id()), wk);
    drain!("view_iter", side.map.view().iter(), |(p, v): (&P, &V)| (key_of(p), v.id()), wk);
    drain!("view_into_iter", side.map.view().into_iter(), |(p, v): (&P, &V)| (key_of(p), v.id()), wk);
    drain!("into_iter", side.map.clone().into_iter(), |(p, v): (P, V)| (key_of(&p), v.id()), wk);
    drain!("into_keys", side.map.clone().into_keys(), |p: P| key_of(&p), wkeys);
    drain!("into_values", side.map.clone().into_values(), |v: V| v.id(), wvals);
    // default-constructed iterators are empty
    {
        env.cur_op = "iter.default";
        let mut d: prefix_trie::map::Iter<'_, P, V> = Default::default();
        ensure!(d.next().is_none() && d.next().is_none(), "C03", "C03:iter.default", "Iter::default() yields an item");
        let mut d: prefix_trie::map::IterMut<'_, P, V> = Default::default();
        ensure!(d.next().is_none(), "C03", "C03:iter_mut.default", "IterMut::default() yields an item");
    }
    // clones of partially consumed iterators yield the same remainder
    let k = if wk.is_empty() { 0 } else { (salt as usize) % (wk.len() + 1) };
    {
        env.cur_op = "iter.clone";
        let mut it = side.map.iter();
        for _ in 0..k {
            it.next();
        }
        let c = it.clone();
        let rest_a: Vec<(Key, u64)> = it.take(lim).map(|(p, v)| (key_of(p), v.id())).collect();
        let rest_b: Vec<(Key, u64)> = c.take(lim).map(|(p, v)| (key_of(p), v.id())).collect();
        ensure!(
            rest_a == rest_b && rest_a[..] == wk[k.min(wk.len())..],
            "C03",
            "C03:iter.clone",
            "step {step}: clone of iter() after {k} steps yields {:?} / original {:?} / model {:?}",
            rest_b,
            rest_a,
            &wk[k.min(wk.len())..]
        );
        let mut it = side.map.keys();
        for _ in 0..k {
            it.next();
        }
        let c = it.clone();
        let ra: Vec<Key> = it.take(lim).map(|p| key_of(p)).collect();
        let rb: Vec<Key> = c.take(lim).map(|p| key_of(p)).collect();
        ensure!(
            ra == rb && ra[..] == wkeys[k.min(wk.len())..],
            "C03",
            "C03:keys.clone",
            "step {step}: clone of keys() differs"
        );
        let mut it = side.map.values();
        for _ in 0..k {
            it.next();
        }
        let c = it.clone();
        let ra: Vec<u64> = it.take(lim).map(|v| v.id()).collect();
        let rb: Vec<u64> = c.take(lim).map(|v| v.id()).collect();
        ensure!(
            ra == rb && ra[..] == wvals[k.min(wk.len())..],
            "C03",
            "C03:values.clone",
            "step {step}: clone of values() differs"
        );
        env.cur_op = "into_iter.clone";
        let mut it = side.map.clone().into_iter();
        for _ in 0..k {
            it.next();
        }
        let c = it.clone();
        let ra: Vec<(Key, u64)> = it.take(lim).map(|(p, v)| (key_of(&p), v.id())).collect();
        let rb: Vec<(Key, u64)> = c.take(lim).map(|(p, v)| (key_of(&p), v.id())).collect();
        ensure!(
            ra == rb && ra[..] == wk[k.min(wk.len())..],
            "C03",
            "C03:into_iter.clone",
            "step {step}: clone of into_iter() after {k} steps yields {:?} / original {:?}",
            rb,
            ra
        );
    }
    env.cur_op = "";
    Ok(())
}

/// C04 with the drift protocol for tolerated known findings.
pub fn check_len<P: TP, V: Val>(side: &Side<P, V>, env: &Env) -> R {
    let n = side.map.iter().take(iter_limit(&side.model)).count() as i64;
    let len = side.map.len() as i64;
    let d = len.wrapping_sub(n);
    ensure!(
        d == side.drift,
        "C04",
        "C04:len",
        "step {} map {}: len() = {} but iteration yields {} entries (tolerated drift {})",
        env.step,
        side.name,
        len as usize,
        n,
        side.drift
    );
    if side.drift == 0 {
        ensure!(
            side.map.is_empty() == (n == 0),
            "C04",
            "C04:is_empty",
            "step {} map {}: is_empty() = {} with {} entries",
            env.step,
            side.name,
            side.map.is_empty(),
            n
        );
    }
    Ok(())
}

/// C15: well-formedness (always) and canonicity (while `side.canonical`).
pub fn check_shape<P: TP, V: Val>(side: &Side<P, V>, env: &mut Env) -> R<Shape> {
    let s = shape_of(&side.map)?;
    if let Err(e) = shape_wellformed(&s, P::W) {
        return fail(
            "C15",
            "C15:wellformed",
            format!("step {} map {}: {} in shape {}", env.step, side.name, e, s.show()),
        );
    }
    // valued nodes of the shape are exactly the model keys
    let mut nodes = Vec::new();
    s.nodes(&mut nodes);
    let d = s.depth();
    if d >= 8 {
        env.ev("shape_depth_ge8");
    }
    if d >= 16 {
        env.ev("shape_depth_ge16");
    }
    if nodes.len() >= 32 {
        env.ev("shape_nodes_ge32");
    }
    if nodes.len() >= 64 {
        env.ev("shape_nodes_ge64");
    }
    let valued: BTreeSet<Key> = nodes.iter().filter(|n| n.1).map(|n| n.0).collect();
    let mk: BTreeSet<Key> = side.model.m.keys().copied().collect();
    ensure!(
        valued == mk,
        "C15",
        "C15:valued-nodes",
        "step {} map {}: valued nodes of the walked shape {:?} differ from the entries {:?}",
        env.step,
        side.name,
        valued,
        mk
    );
    if side.canonical {
        let c = canonical_shape(&mk);
        ensure!(
            c == s,
            "C15",
            "C15:canonical",
            "step {} map {}: shape {} differs from canonical shape {} of the key set",
            env.step,
            side.name,
            s.show(),
            c.show()
        );
        for (k, has_v, nch) in &nodes {
            ensure!(
                *has_v || *k == Key::ROOT || *nch == 2,
                "C15",
                "C15:valueless-two-children",
                "step {}: value-less node {:?} has {} children in {}",
                env.step,
                k,
                nch,
                s.show()
            );
        }
        env.ev("shape_canonical_checked");
    } else {
        env.ev("shape_noncanonical_checked");
    }
    Ok(s)
}

/// C16: every slot is reachable xor free; bounded arena.
pub fn check_arena<P: TP, V: Val>(side: &mut Side<P, V>, env: &mut Env) -> R {
    let a = side.map.verif_arena();
    let emptied = side.canonical && side.model.m.is_empty();
    check_arena_raw(a, &mut side.peak_nodes, emptied, side.name, env)
}

/// The arena oracle on a snapshot (maps and sets).
pub fn check_arena_raw(a: prefix_trie::map::VerifArena, peak_nodes: &mut usize, emptied_by_remove: bool, name: &str, env: &mut Env) -> R {
    struct S<'x> {
        name: &'x str,
    }
    let side = S { name };
    let n = a.arena_len;
    ensure!(n >= 1, "C16", "C16:arena-empty", "arena has no root slot");
    // depth-first walk with colours: 0 = unseen, 1 = on the current path, 2 = done
    let mut colour = vec![0u8; n];
    let mut reach = vec![false; n];
    let mut nreach = 0usize;
    let mut shared: Option<usize> = None;
    // stack of (slot, next child to look at)
    let mut stack: Vec<(usize, u8)> = vec![(0, 0)];
    colour[0] = 1;
    reach[0] = true;
    nreach += 1;
    while let Some((i, c)) = stack.pop() {
        if c >= 2 {
            colour[i] = 2;
            continue;
        }
        stack.push((i, c + 1));
        let (l, r, _) = a.slots[i];
        let child = if c == 0 { l } else { r };
        if let Some(ch) = child {
            ensure!(ch < n, "C16", "C16:link-out-of-range", "step {}: link to slot {} >= arena length {}", env.step, ch, n);
            match colour[ch] {
                0 => {
                    colour[ch] = 1;
                    reach[ch] = true;
                    nreach += 1;
                    stack.push((ch, 0));
                }
                1 => {
                    return fail(
                        "C16",
                        "C16:cycle",
                        format!("step {} map {}: the links form a cycle through slot {}", env.step, side.name, ch),
                    )
                }
                _ => {
                    if shared.is_none() {
                        shared = Some(ch);
                    }
                }
            }
        }
    }
    if let Some(ch) = shared {
        return fail(
            "C16",
            "C16:slot-reached-twice",
            format!("step {} map {}: slot {} is reachable along two paths", env.step, side.name, ch),
        );
    }
    let mut free = vec![false; n];
    for &f in &a.free {
        ensure!(f < n, "C16", "C16:free-out-of-range", "step {}: free list holds {} >= arena length {}", env.step, f, n);
        ensure!(
            !free[f],
            "C16",
            "C16:free-duplicate",
            "step {} map {}: slot {} is on the free list twice",
            env.step,
            side.name,
            f
        );
        free[f] = true;
    }
    for i in 0..n {
        ensure!(
            !(free[i] && reach[i]),
            "C16",
            "C16:slot-both",
            "step {} map {}: slot {} is part of the tree AND on the free list",
            env.step,
            side.name,
            i
        );
        ensure!(
            free[i] || reach[i],
            "C16",
            "C16:slot-neither",
            "step {} map {}: slot {} is neither part of the tree nor on the free list (leaked); arena {} reachable {} free {}",
            env.step,
            side.name,
            i,
            n,
            nreach,
            a.free.len()
        );
    }
    if nreach > *peak_nodes {
        *peak_nodes = nreach;
    }
    ensure!(
        n <= 2 * *peak_nodes + 1,
        "C16",
        "C16:arena-bound",
        "step {}: arena length {} exceeds 2 * peak node count {} + 1",
        env.step,
        n,
        *peak_nodes
    );
    if emptied_by_remove {
        ensure!(
            nreach == 1,
            "C16",
            "C16:emptied-not-minimal",
            "step {}: map emptied by remove keeps {} nodes in the tree",
            env.step,
            nreach
        );
    }
    // cross-check of the cached counter (reported through C04, not here)
    Ok(())
}

/// Run every observer in focus on one side after a step.
pub fn observe<P: TP, V: Val>(side: &mut Side<P, V>, env: &mut Env, other_model: Option<&Model>) -> R {
    // Structural sanity (always). A node that is reachable along two paths (slot reuse after a stale
    // link, cycle) makes later crate calls loop or allocate without bound, so such a case must end at
    // this step - but only after this step's observers had their chance to see the symptom.
    let sanity = check_arena(side, env);
    if let Err(f) = &sanity {
        if f.sig == "C16:cycle" || f.sig == "C16:link-out-of-range" {
            // not even iteration terminates on such a structure
            return sanity;
        }
    }
    let r = observe_inner(side, env, other_model);
    r?;
    if let Err(f) = sanity {
        let dangerous = f.sig == "C16:slot-reached-twice" || f.sig == "C16:link-out-of-range" || f.sig == "C16:free-out-of-range";
        if dangerous || env.focus.has(16) {
            return Err(f);
        }
        env.ev("arena_inconsistent_case_continues");
    }
    Ok(())
}

fn observe_inner<P: TP, V: Val>(side: &mut Side<P, V>, env: &mut Env, other_model: Option<&Model>) -> R {
    let f = env.focus;
    // oracles that involve no model come first, so that a defect which also loses entries is still
    // attributed to them: len() vs what iteration actually yields, well-formedness of the walked shape
    if f.has(4) {
        check_len(side, env)?;
    }
    if f.has(15) {
        let s = shape_of(&side.map)?;
        if let Err(e) = shape_wellformed(&s, P::W) {
            return fail(
                "C15",
                "C15:wellformed",
                format!("step {} map {}: {} in shape {}", env.step, side.name, e, s.show()),
            );
        }
    }
    check_contents(side, env)?;
    if f.has(15) {
        check_shape(side, env)?;
    }
    if f.has(3) {
        let salt = env.step as u64 * 31 + side.model.len() as u64;
        check_traversals(side, env, salt)?;
    }
    if f.has(20) {
        // formatting is a public operation too
        env.cur_op = "fmt";
        let s1 = format!("{:?}", side.map);
        let s2 = format!("{:?}", (&side.map).view());
        ensure!(!s1.is_empty() && !s2.is_empty(), "C20", "C20:fmt:empty", "Debug output is empty");
        env.cur_op = "";
    }
    if f.has(1) || f.has(2) || f.has(9) || f.has(10) || f.has(18) {
        let mut models: Vec<&Model> = vec![&side.model];
        if let Some(o) = other_model {
            models.push(o);
        }
        let qs = query_set::<P>(&env.uni, &models, env.full_queries, env.step as u64 + 17);
        env.evn("queries", qs.len() as u64);
        check_queries(side, env, &qs)?;
    }
    Ok(())
}

pub fn covers_any(keys: &[Key], k: Key) -> bool {
    keys.iter().any(|c| covers(*c, k))
}

pub fn as_fail(prop: &'static str, sig: &str, msg: String) -> Fail {
    Fail {
        prop,
        sig: sig.to_string(),
        msg,
    }
}
