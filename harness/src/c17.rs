//! C17: the prefix algebra of every shipped `Prefix` implementation against u128 bit arithmetic.

use crate::engine::*;
use crate::env::{Fail, R};
use crate::model::{covers, key_bit, lcp, Key, Raw};
use crate::tp::{len_mask, width_mask, TP};
use num_traits::NumCast;
use prefix_trie::Prefix;
use proptest::prelude::*;
use serde::{Deserialize, Serialize};
use std::panic::{catch_unwind, AssertUnwindSafe};

/// Runs the crate's *default* trait methods on top of P's three required methods.
#[derive(Debug, Clone)]
pub struct Generic<P>(pub P);
impl<P: Prefix> Prefix for Generic<P> {
    type R = P::R;
    fn repr(&self) -> P::R {
        self.0.repr()
    }
    fn prefix_len(&self) -> u8 {
        self.0.prefix_len()
    }
    fn from_repr_len(repr: P::R, len: u8) -> Self {
        Generic(P::from_repr_len(repr, len))
    }
}

fn guard<T>(what: &str, a: Raw, b: Option<Raw>, f: impl FnOnce() -> T) -> R<T> {
    match catch_unwind(AssertUnwindSafe(f)) {
        Ok(v) => Ok(v),
        Err(_) => {
            let (file, line, msg) = take_last_panic();
            Err(Fail {
                prop: "C17",
                sig: format!("C17:{what}:panic"),
                msg: format!("{what} panicked at {file}:{line}: {msg} for a = {:x}/{} b = {:?}", a.bits, a.len, b.map(|b| format!("{:x}/{}", b.bits, b.len))),
            })
        }
    }
}

fn to_r<P: TP>(bits: u128) -> P::R {
    // right-align in the width of the type
    let v = if P::W == 128 { bits } else { bits >> (128 - P::W as u32) };
    <P::R as NumCast>::from(v).expect("fits")
}
fn from_r<P: TP>(r: P::R) -> u128 {
    let v: u128 = <u128 as NumCast>::from(r).expect("fits");
    if P::W == 128 {
        v
    } else {
        v << (128 - P::W as u32)
    }
}

macro_rules! c17 {
    ($cond:expr, $sig:expr, $($fmt:tt)*) => {
        if !($cond) {
            return Err(Fail { prop: "C17", sig: format!("C17:{}", $sig), msg: format!($($fmt)*) });
        }
    };
}

/// Everything about one value.
pub fn check_single<P: TP>(a: Raw) -> R {
    let n = P::NAME;
    let p: P = guard("make", a, None, || P::make(a.bits, a.len))?;
    let stored = Raw {
        bits: p.raw_bits(),
        len: p.raw_len(),
    };
    let k = stored.key();
    c17!(stored.len == a.len && k == a.key(), "construct", "{n}: constructing {:x}/{} gives {:x}/{}", a.bits, a.len, stored.bits, stored.len);
    let plen = guard("prefix_len", a, None, || Prefix::prefix_len(&p))?;
    c17!(plen == a.len, "prefix_len", "{n}: prefix_len() = {plen} for /{}", a.len);
    let mask = guard("mask", a, None, || from_r::<P>(p.mask()))?;
    c17!(mask == k.net, "mask", "{n}: mask() of {:x}/{} = {:x}, network part is {:x}", stored.bits, a.len, mask, k.net);
    let gmask = guard("mask(default)", a, None, || from_r::<P>(Generic(p.clone()).mask()))?;
    c17!(gmask == mask, "mask:override-vs-default", "{n}: mask() = {:x} but the generic definition gives {:x}", mask, gmask);
    // is_bit_set for every index
    for i in 0..=255u8 {
        let got = guard("is_bit_set", a, None, || p.is_bit_set(i))?;
        let want = key_bit(k, i as u32);
        c17!(got == want, "is_bit_set", "{n}: is_bit_set({i}) of {:x}/{} = {got}, expected {want}", stored.bits, a.len);
        let g = guard("is_bit_set(default)", a, None, || Generic(p.clone()).is_bit_set(i))?;
        c17!(g == got, "is_bit_set:override-vs-default", "{n}: is_bit_set({i}) override {got} vs default {g}");
    }
    // from_repr_len
    let q: P = guard("from_repr_len", a, None, || P::from_repr_len(to_r::<P>(a.bits), a.len))?;
    c17!(q.raw_len() == a.len && Key::new(q.raw_bits(), q.raw_len()) == k, "from_repr_len", "{n}: from_repr_len({:x}, {}) = {:x}/{}", a.bits, a.len, q.raw_bits(), q.raw_len());
    c17!(guard("eq", a, None, || Prefix::eq(&p, &q))?, "eq:reflexive", "{n}: from_repr_len of the same bits is not eq");
    // reflexivity
    c17!(guard("contains", a, None, || Prefix::contains(&p, &p))?, "contains:reflexive", "{n}: {:x}/{} does not contain itself", stored.bits, a.len);
    let z = guard("zero", a, None, || P::zero())?;
    c17!(Key::new(z.raw_bits(), z.raw_len()) == Key::ROOT, "zero", "{n}: zero() = {:x}/{}", z.raw_bits(), z.raw_len());
    c17!(guard("contains", a, None, || Prefix::contains(&z, &p))?, "contains:zero-covers-all", "{n}: zero() does not contain {:x}/{}", stored.bits, a.len);
    Ok(())
}

/// Everything about an ordered pair. Returns whether the pair is non-trivial.
pub fn check_pair<P: TP>(a: Raw, b: Raw) -> R<bool> {
    let n = P::NAME;
    let pa: P = P::make(a.bits, a.len);
    let pb: P = P::make(b.bits, b.len);
    let (ka, kb) = (Key::new(pa.raw_bits(), a.len), Key::new(pb.raw_bits(), b.len));
    let got = guard("contains", a, Some(b), || Prefix::contains(&pa, &pb))?;
    let want = covers(ka, kb);
    c17!(got == want, "contains", "{n}: ({:x}/{}).contains({:x}/{}) = {got}, bitwise coverage says {want}", pa.raw_bits(), a.len, pb.raw_bits(), b.len);
    let gd = guard("contains(default)", a, Some(b), || Generic(pa.clone()).contains(&Generic(pb.clone())))?;
    c17!(gd == got, "contains:override-vs-default", "{n}: contains override {got} vs default {gd} for {:x}/{} , {:x}/{}", pa.raw_bits(), a.len, pb.raw_bits(), b.len);
    let e = guard("eq", a, Some(b), || Prefix::eq(&pa, &pb))?;
    c17!(e == (ka == kb), "eq", "{n}: ({:x}/{}).eq({:x}/{}) = {e}", pa.raw_bits(), a.len, pb.raw_bits(), b.len);
    let ed = guard("eq(default)", a, Some(b), || Generic(pa.clone()).eq(&Generic(pb.clone())))?;
    c17!(ed == e, "eq:override-vs-default", "{n}: eq override {e} vs default {ed}");
    // antisymmetry up to host bits
    if got && guard("contains", b, Some(a), || Prefix::contains(&pb, &pa))? {
        c17!(e, "contains:antisymmetric", "{n}: mutual containment but not eq: {:x}/{} , {:x}/{}", pa.raw_bits(), a.len, pb.raw_bits(), b.len);
    }
    let l = guard("longest_common_prefix", a, Some(b), || pa.longest_common_prefix(&pb))?;
    let want = lcp(ka, kb);
    let kl = Key::new(l.raw_bits(), l.raw_len());
    c17!(l.raw_len() == want.len, "lcp:length", "{n}: lcp({:x}/{}, {:x}/{}) has length {}, expected {}", pa.raw_bits(), a.len, pb.raw_bits(), b.len, l.raw_len(), want.len);
    c17!(kl == want, "lcp:network", "{n}: lcp({:x}/{}, {:x}/{}) = {:?}, expected {:?}", pa.raw_bits(), a.len, pb.raw_bits(), b.len, kl, want);
    let lrepr = guard("repr", a, Some(b), || from_r::<P>(l.repr()))?;
    c17!(lrepr & !len_mask(want.len) & width_mask(P::W) == 0, "lcp:host-part", "{n}: lcp({:x}/{}, {:x}/{}) has repr {:x} with a non-zero host part", pa.raw_bits(), a.len, pb.raw_bits(), b.len, lrepr);
    c17!(covers(kl, ka) && covers(kl, kb), "lcp:covers-both", "{n}: lcp does not cover both operands");
    c17!(guard("contains", a, Some(b), || Prefix::contains(&l, &pa) && Prefix::contains(&l, &pb))?, "lcp:contains-both", "{n}: lcp({:x}/{}, {:x}/{}).contains(operand) is false", pa.raw_bits(), a.len, pb.raw_bits(), b.len);
    let l2 = guard("longest_common_prefix", b, Some(a), || pb.longest_common_prefix(&pa))?;
    c17!(Key::new(l2.raw_bits(), l2.raw_len()) == kl, "lcp:symmetric", "{n}: lcp is not symmetric for {:x}/{} , {:x}/{}", pa.raw_bits(), a.len, pb.raw_bits(), b.len);
    let ld = guard("longest_common_prefix(default)", a, Some(b), || Generic(pa.clone()).longest_common_prefix(&Generic(pb.clone())))?;
    c17!(Key::new(ld.0.raw_bits(), ld.0.raw_len()) == kl, "lcp:override-vs-default", "{n}: lcp override {:?} vs default {:?}", kl, Key::new(ld.0.raw_bits(), ld.0.raw_len()));
    let w = P::W;
    let boundary = |l: u8| l == 0 || l == 1 || l == w || l + 1 == w;
    Ok((want.len > 0 && want.len < a.len.min(b.len)) || boundary(a.len) || boundary(b.len))
}

pub fn check_triple<P: TP>(a: Raw, b: Raw, c: Raw) -> R {
    let (pa, pb, pc): (P, P, P) = (P::make(a.bits, a.len), P::make(b.bits, b.len), P::make(c.bits, c.len));
    if Prefix::contains(&pa, &pb) && Prefix::contains(&pb, &pc) {
        c17!(Prefix::contains(&pa, &pc), "contains:transitive", "{}: contains is not transitive for {:x}/{} , {:x}/{} , {:x}/{}", P::NAME, a.bits, a.len, b.bits, b.len, c.bits, c.len);
    }
    Ok(())
}

#[derive(Clone, Debug, Serialize, Deserialize)]
pub struct C17Case {
    pub ptype: String,
    pub a: Raw,
    pub b: Raw,
    pub c: Raw,
}

pub fn exec_c17<P: TP>(c: &C17Case) -> CaseResult {
    let mut res = CaseResult::default();
    let r = (|| -> R<bool> {
        check_single::<P>(c.a)?;
        check_single::<P>(c.b)?;
        let nt = check_pair::<P>(c.a, c.b)?;
        check_pair::<P>(c.b, c.a)?;
        check_triple::<P>(c.a, c.b, c.c)?;
        check_triple::<P>(c.c, c.a, c.b)?;
        check_pair::<P>(c.a, c.c)?;
        Ok(nt)
    })();
    match r {
        Ok(nt) => res.nontrivial = nt,
        Err(f) => res.fail = Some(f),
    }
    res.sample = format!("{}: a={:x}/{} b={:x}/{} c={:x}/{}", c.ptype, c.a.bits, c.a.len, c.b.bits, c.b.len, c.c.bits, c.c.len);
    res
}

pub fn exec_c17_dyn(c: &C17Case) -> CaseResult {
    fn go<P: TP>(c: &C17Case) -> CaseResult {
        exec_c17::<P>(c)
    }
    crate::dispatch_tp!(c.ptype.as_str(), go, c)
}

/// a, then b sharing exactly `k` leading bits with a (when lengths allow), c a relative of both
pub fn c17_strategy(ptype: &'static str, w: u8) -> BoxedStrategy<C17Case> {
    let len = move || {
        prop_oneof![
            2 => Just(0u8), 2 => Just(1u8), 2 => Just(w), 2 => Just(w - 1), 1 => Just(w / 2),
            6 => (0..=w as u32).prop_map(|x| x as u8),
        ]
    };
    let bits = || {
        prop_oneof![
            1 => Just(0u128), 1 => Just(!0u128), 1 => Just(1u128 << 127), 1 => Just(!(1u128 << 127)),
            1 => Just(0xAAAA_AAAA_AAAA_AAAA_AAAA_AAAA_AAAA_AAAAu128),
            6 => any::<u128>(),
        ]
    };
    (bits(), len(), len(), len(), 0..=w as u32, any::<u128>(), any::<u128>(), 0..=w as u32)
        .prop_map(move |(ab, al, bl, cl, k, tail, tail2, k2)| {
            let wm = width_mask(w);
            let a = Raw { bits: ab & wm, len: al };
            // b: first k bits as a, bit k flipped, then random tail
            let k = k.min(w as u32);
            let mut bb = (ab & len_mask(k as u8)) | (tail & !len_mask(k as u8));
            if k < w as u32 {
                let bit = 1u128 << (127 - k);
                bb = (bb & !bit) | (!ab & bit);
            }
            let b = Raw { bits: bb & wm, len: bl };
            let k2 = k2.min(w as u32);
            let cb = (bb & len_mask(k2 as u8)) | (tail2 & !len_mask(k2 as u8));
            let c = Raw { bits: cb & wm, len: cl };
            C17Case {
                ptype: ptype.to_string(),
                a,
                b,
                c,
            }
        })
        .boxed()
}

/// Exhaustive part on (u8,u8): every value, every ordered pair, triples up to length 4.
pub fn exhaustive_u8(threads: usize) -> Outcome {
    type P = (u8, u8);
    let mut vals: Vec<Raw> = Vec::new();
    for len in 0..=8u8 {
        for addr in 0..=255u32 {
            vals.push(Raw {
                bits: (addr as u128) << 120,
                len,
            });
        }
    }
    let chunks: Vec<Vec<Raw>> = vals.chunks(64).map(|c| c.to_vec()).collect();
    let all = vals.clone();
    let mut o = run_parallel(chunks, threads, |chunk| {
        let mut o = Outcome::default();
        let mut nt = 0u64;
        for a in &chunk {
            if let Err(f) = check_single::<P>(*a) {
                o.violation = Some(to_violation(&f, "u8", *a, *a, *a));
                return o;
            }
            o.evaluations += 1;
            for b in &all {
                match check_pair::<P>(*a, *b) {
                    Ok(n) => {
                        o.evaluations += 1;
                        if n {
                            nt += 1;
                        }
                    }
                    Err(f) => {
                        o.violation = Some(to_violation(&f, "u8", *a, *b, *a));
                        return o;
                    }
                }
            }
        }
        o.counted_nontrivial = nt;
        o.classes.insert("exhaustive_u8_pairs_nontrivial".into(), nt);
        o
    });
    // triples on lengths <= 4 with two host-bit variants per key
    let mut small: Vec<Raw> = Vec::new();
    for len in 0..=4u8 {
        for i in 0..(1u32 << len) {
            let net = if len == 0 { 0 } else { (i as u128) << (128 - len as u32) };
            small.push(Raw { bits: net, len });
            small.push(Raw {
                bits: (net | !len_mask(len)) & width_mask(8),
                len,
            });
        }
    }
    let mut triples = 0u64;
    'outer: for a in &small {
        for b in &small {
            for c in &small {
                if let Err(f) = check_triple::<P>(*a, *b, *c) {
                    o.violation = Some(to_violation(&f, "u8", *a, *b, *c));
                    break 'outer;
                }
                triples += 1;
            }
        }
    }
    o.classes.insert("exhaustive_u8_triples".into(), triples);
    o.evaluations += triples;
    o.exhaustive = o.violation.is_none();
    o
}

fn to_violation(f: &Fail, ptype: &str, a: Raw, b: Raw, c: Raw) -> Violation {
    let case = C17Case {
        ptype: ptype.to_string(),
        a,
        b,
        c,
    };
    let replay = write_replay("C17", &format!("C17-exh-{ptype}"), 0, &case, f.prop, &f.sig, &f.msg);
    Violation {
        prop: f.prop.to_string(),
        sig: f.sig.clone(),
        msg: f.msg.clone(),
        replay,
    }
}

pub fn run_c17(tier: &str, seed: u64) -> Outcome {
    let threads = std::thread::available_parallelism().map(|n| n.get()).unwrap_or(4).min(16);
    let mut o = exhaustive_u8(threads);
    if o.violation.is_some() {
        return o;
    }
    let exh_nt = o.classes.get("exhaustive_u8_pairs_nontrivial").copied().unwrap_or(0);
    let (cases, shards) = if tier == "thorough" { (120_000u32, 16u32) } else { (10_000, 4) };
    let mut jobs = Vec::new();
    for t in crate::tp::ALL_TYPES {
        for sh in 0..shards {
            jobs.push((t, sh));
        }
    }
    let accept = Accept::one("C17");
    let known = known_sigs("*");
    let o2 = run_parallel(jobs, threads, |(t, sh)| {
        let w = width_of(t);
        let strat = c17_strategy(t, w);
        let label = format!("C17-{t}-{sh}");
        let mut o = run_shard("C17", &label, strat, cases, seed.wrapping_mul(1_000_003).wrapping_add(sh as u64), &accept, &known, exec_c17_dyn);
        o.classes.insert(format!("type:{t}"), o.evaluations);
        o
    });
    o.merge(o2);
    // the top-level flag stays false: only the (u8,u8) sub-space was enumerated completely
    o.extra.insert("exhaustive_u8_subspace_completed".into(), o.exhaustive.into());
    o.exhaustive = false;
    o.extra.insert("exhaustive_u8_nontrivial_pairs_counted_exactly".into(), exh_nt.into());
    o.extra.insert("exhaustive_scope".into(), "all 2304 (address,length) values of (u8,u8) incl. host bits, all 2304^2 ordered pairs, all bit indices 0..=255, all triples over lengths <= 4; the other 13 types are sampled".into());
    o
}

pub fn width_of(t: &str) -> u8 {
    fn w<P: TP>() -> u8 {
        P::W
    }
    crate::dispatch_tp!(t, w)
}

pub fn replay_c17(path: &str) -> Outcome {
    let (_rf, c): (ReplayFile, C17Case) = read_replay(path);
    let r = exec_c17_dyn(&c);
    let mut o = Outcome::default();
    o.evaluations = 1;
    o.is_replay = true;
    if let Some(f) = r.fail {
        o.violation = Some(Violation {
            prop: f.prop.to_string(),
            sig: f.sig,
            msg: f.msg,
            replay: path.to_string(),
        });
    }
    o
}
