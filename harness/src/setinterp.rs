//! The thinner interpreter for `PrefixSet`: the same generated histories, restricted to the set API.

use crate::ensure;
use crate::env::{fail, query_set, Env, R};
use crate::interp::eval_pred;
use crate::model::{key_of, mk, raw_of, Key, Model, Raw};
use crate::ops::*;
use crate::tp::TP;
use prefix_trie::{AsView, AsViewMut, PrefixSet};

pub struct SetSide<P: TP> {
    pub set: PrefixSet<P>,
    pub model: Model,
    pub drift: i64,
    /// only insert, remove, retain, clear, from_iter were used
    pub canonical: bool,
    pub peak_nodes: usize,
}

fn rs<P: TP>(env: &Env, p: PRef) -> (P, Raw) {
    let r = resolve(&env.uni, p, P::W);
    let pp: P = mk(r);
    let r2 = raw_of(&pp);
    (pp, r2)
}

fn lim(m: &Model) -> usize {
    4 * m.len() + 64
}

fn seq<P: TP>(it: impl Iterator<Item = P>, l: usize) -> Vec<Raw> {
    it.take(l + 1).map(|p| raw_of(&p)).collect()
}
fn seq_ref<'a, P: TP>(it: impl Iterator<Item = &'a P>, l: usize) -> Vec<Raw> {
    it.take(l + 1).map(|p| raw_of(p)).collect()
}

fn cmp_keys(prop: &'static str, what: &str, step: usize, got: &[Raw], want: &[(Key, u128)], repr: bool) -> R {
    let gk: Vec<Key> = got.iter().map(|r| r.key()).collect();
    let wk: Vec<Key> = want.iter().map(|w| w.0).collect();
    ensure!(gk == wk, prop, format!("{prop}:set.{what}"), "step {step}: PrefixSet::{what} yields {:?}, model {:?}", gk, wk);
    if repr {
        for (g, (k, r)) in got.iter().zip(want.iter()) {
            ensure!(g.bits == *r, "C18", format!("C18:set.{what}:repr"), "step {step}: PrefixSet::{what} reports {:?} with bits {:x}, stored representation {:x}", k, g.bits, r);
        }
    }
    Ok(())
}

pub fn observe_set<P: TP>(s: &mut SetSide<P>, env: &mut Env) -> R {
    let step = env.step;
    let f = env.focus;
    let l = lim(&s.model);
    let want: Vec<(Key, u128)> = s.model.seq().iter().map(|(k, r, _)| (*k, *r)).collect();
    // C04 first (no model involved)
    if f.has(4) {
        env.cur_op = "set.len";
        let n = s.set.iter().take(l).count() as i64;
        let d = s.set.len() as i64 - n;
        ensure!(d == s.drift, "C04", "C04:len", "step {step}: PrefixSet::len() = {} but iteration yields {} entries (tolerated drift {})", s.set.len(), n, s.drift);
        if s.drift == 0 {
            ensure!(s.set.is_empty() == (n == 0), "C04", "C04:is_empty", "step {step}: PrefixSet::is_empty() = {} with {} entries", s.set.is_empty(), n);
        }
    }
    if f.has(16) {
        let emptied = s.canonical && s.model.m.is_empty();
        crate::observe::check_arena_raw(s.set.verif_arena(), &mut s.peak_nodes, emptied, "set", env)?;
    }
    if f.has(15) {
        env.cur_op = "set.view";
        let mut budget = 100_000usize;
        let shape = crate::observe::walk((&s.set).view(), &mut budget, 0)?;
        if let Err(e) = crate::model::shape_wellformed(&shape, P::W) {
            return fail("C15", "C15:wellformed", format!("step {step}: set: {e} in shape {}", shape.show()));
        }
        if s.canonical {
            let keys: std::collections::BTreeSet<Key> = s.model.m.keys().copied().collect();
            let c = crate::model::canonical_shape(&keys);
            let mut nodes = Vec::new();
            shape.nodes(&mut nodes);
            let valued: std::collections::BTreeSet<Key> = nodes.iter().filter(|n| n.1).map(|n| n.0).collect();
            if valued == keys {
                ensure!(c == shape, "C15", "C15:canonical", "step {step}: PrefixSet shape {} differs from the canonical shape {} of its prefixes (only insert/remove/retain/clear were used)", shape.show(), c.show());
                env.ev("shape_canonical_checked");
            }
        }
    }
    // baseline contents
    env.cur_op = "set.iter";
    let got = seq_ref(s.set.iter(), l);
    {
        let gk: Vec<Key> = got.iter().map(|r| r.key()).collect();
        let wk: Vec<Key> = want.iter().map(|w| w.0).collect();
        if gk != wk {
            let mut gs = gk.clone();
            gs.sort();
            let (prop, sig) = if gs == wk { ("C03", "C03:iter:order") } else { ("C01", "C01:contents") };
            return fail(prop, sig, format!("step {step}: PrefixSet::iter() = {:?} but model = {:?}", gk, wk));
        }
    }
    if f.has(18) {
        cmp_keys("C03", "iter", step, &got, &want, true)?;
    }
    if f.has(3) {
        env.cur_op = "set.iter";
        let mut it = s.set.iter();
        let mut n = 0;
        while it.next().is_some() {
            n += 1;
            ensure!(n <= l, "C20", "C20:set.iter:diverges", "set iter does not end");
        }
        for _ in 0..3 {
            ensure!(it.next().is_none(), "C03", "C03:set.iter:fused", "step {step}: PrefixSet::iter yields after None");
        }
        env.cur_op = "set.ref_into_iter";
        cmp_keys("C03", "(&set).into_iter", step, &seq_ref((&s.set).into_iter(), l), &want, false)?;
        env.cur_op = "set.into_iter";
        let mut it = s.set.clone().into_iter();
        let mut gi = Vec::new();
        while let Some(p) = it.next() {
            gi.push(raw_of(&p));
            ensure!(gi.len() <= l, "C20", "C20:set.into_iter:diverges", "set into_iter does not end");
        }
        for _ in 0..3 {
            ensure!(it.next().is_none(), "C03", "C03:set.into_iter:fused", "step {step}: PrefixSet::into_iter yields after None");
        }
        cmp_keys("C03", "into_iter", step, &gi, &want, false)?;
        // clones of partially consumed iterators
        let k = if want.is_empty() { 0 } else { (step * 7 + 3) % (want.len() + 1) };
        let mut it = s.set.iter();
        for _ in 0..k {
            it.next();
        }
        let c = it.clone();
        let (ra, rb) = (seq_ref(it, l), seq_ref(c, l));
        ensure!(ra == rb, "C03", "C03:set.iter.clone", "step {step}: clone of a set iterator after {k} steps yields a different remainder");
        cmp_keys("C03", "iter.clone", step, &ra, &want[k.min(want.len())..], false)?;
        let mut it = s.set.clone().into_iter();
        for _ in 0..k {
            it.next();
        }
        let c = it.clone();
        let (ra, rb) = (seq(it, l), seq(c, l));
        ensure!(ra == rb, "C03", "C03:set.into_iter.clone", "step {step}: clone of a set into_iter after {k} steps yields a different remainder");
        env.cur_op = "set.view.iter";
        let gv: Vec<Raw> = (&s.set).view().iter().take(l + 1).map(|(p, _)| raw_of(p)).collect();
        cmp_keys("C03", "view().iter", step, &gv, &want, false)?;
    }
    if f.has(1) || f.has(2) || f.has(9) || f.has(10) || f.has(18) {
        let qs = query_set::<P>(&env.uni, &[&s.model], env.full_queries, step as u64 + 5);
        for q in &qs {
            let qk = q.key();
            let p: P = mk(*q);
            if f.has(1) || f.has(18) {
                let w = s.model.get(qk).map(|st| (qk, st.repr));
                env.cur_op = "set.contains";
                ensure!(s.set.contains(&p) == w.is_some(), "C01", "C01:set.contains", "step {step}: PrefixSet::contains({:?}) = {}, model {}", qk, !w.is_some(), w.is_some());
                env.cur_op = "set.get";
                let g = s.set.get(&p).map(|x| raw_of(x));
                ensure!(g.map(|r| r.key()) == w.map(|x| x.0), "C01", "C01:set.get", "step {step}: PrefixSet::get({:?}) = {:?}, model {:?}", qk, g.map(|r| r.key()), w.map(|x| x.0));
                if f.has(18) {
                    if let (Some(g), Some((_, r))) = (g, w) {
                        ensure!(g.bits == r, "C18", "C18:set.get:repr", "step {step}: PrefixSet::get({:?}) has bits {:x}, stored {:x} (query bits {:x})", qk, g.bits, r, q.bits);
                    }
                }
            }
            if f.has(2) || f.has(18) {
                env.cur_op = "set.get_lpm";
                let w = s.model.lpm(qk).map(|(k, st)| (k, st.repr));
                let g = s.set.get_lpm(&p).map(|x| raw_of(x));
                ensure!(g.map(|r| r.key()) == w.map(|x| x.0), "C02", "C02:set.get_lpm", "step {step}: PrefixSet::get_lpm({:?}) = {:?}, model {:?}", qk, g.map(|r| r.key()), w.map(|x| x.0));
                if f.has(18) {
                    if let (Some(g), Some((k, r))) = (g, w) {
                        ensure!(g.bits == r, "C18", "C18:set.get_lpm:repr", "step {step}: PrefixSet::get_lpm reports {:?} with bits {:x}, stored {:x}", k, g.bits, r);
                    }
                }
            }
            if f.has(9) || f.has(18) {
                env.cur_op = "set.cover";
                let w: Vec<(Key, u128)> = s.model.cover(qk).into_iter().map(|(k, st)| (k, st.repr)).collect();
                let mut it = s.set.cover(&p);
                let mut g = Vec::new();
                while let Some(x) = it.next() {
                    g.push(raw_of(x));
                    ensure!(g.len() <= 300, "C20", "C20:set.cover:diverges", "set cover does not end");
                }
                ensure!(it.next().is_none(), "C09", "C09:set.cover:fused", "set cover yields after None");
                cmp_keys("C09", "cover", step, &g, &w, f.has(18))?;
                env.cur_op = "set.get_lpm";
                let gl = s.set.get_lpm(&p).map(|x| raw_of(x).key());
                ensure!(gl == w.last().map(|x| x.0), "C09", "C09:set.get_lpm(last of cover)", "step {step}: PrefixSet::get_lpm({:?}) = {:?}, last of cover {:?}", qk, gl, w.last().map(|x| x.0));
                env.cur_op = "set.get_spm";
                let gs = s.set.get_spm(&p).map(|x| raw_of(x).key());
                ensure!(gs == w.first().map(|x| x.0), "C09", "C09:set.get_spm", "step {step}: PrefixSet::get_spm({:?}) = {:?}, model {:?}", qk, gs, w.first().map(|x| x.0));
            }
            if f.has(10) || f.has(18) {
                env.cur_op = "set.children";
                let w: Vec<(Key, u128)> = s.model.children(qk).into_iter().map(|(k, st)| (k, st.repr)).collect();
                let g = seq_ref(s.set.children(&p), l);
                cmp_keys("C10", "children", step, &g, &w, f.has(18))?;
            }
        }
    }
    env.cur_op = "";
    Ok(())
}

/// Apply one operation to the set (operations without a set counterpart are skipped).
pub fn apply_set<P: TP>(s: &mut SetSide<P>, op: &Op, env: &mut Env) -> R<bool> {
    let step = env.step;
    match op {
        Op::Insert { p, .. } | Op::Entry { p, .. } => {
            let (pp, r) = rs::<P>(env, *p);
            env.cur_op = "set.insert";
            let got = s.set.insert(pp);
            let want = s.model.insert(r, 0).is_none();
            ensure!(got == want, "C01", "C01:set.insert:return", "step {step}: PrefixSet::insert({:?}) returned {got}, newly inserted: {want}", r.key());
            env.ev(if want { "insert_new" } else { "insert_existing" });
            if env.has_ev("removed_hit") {
                env.ev("insert_after_remove");
            }
        }
        Op::Remove { p, .. } => {
            let (pp, r) = rs::<P>(env, *p);
            env.cur_op = "set.remove";
            let got = s.set.remove(&pp);
            let want = s.model.remove(r.key()).is_some();
            ensure!(got == want, "C01", "C01:set.remove:return", "step {step}: PrefixSet::remove({:?}) returned {got}, was present: {want}", r.key());
            if want {
                env.ev("removed_hit");
            }
        }
        Op::RemoveKeepTree { p, .. } => {
            let (pp, r) = rs::<P>(env, *p);
            env.cur_op = "set.remove_keep_tree";
            let got = s.set.remove_keep_tree(&pp);
            let want = s.model.remove(r.key()).is_some();
            ensure!(got == want, "C01", "C01:set.remove_keep_tree:return", "step {step}: PrefixSet::remove_keep_tree({:?}) returned {got}, was present: {want}", r.key());
            if want {
                env.ev("removed_hit");
                env.ev("leftover_created");
                env.ev("keep_tree_hit");
                s.canonical = false;
            }
        }
        Op::RemoveChildren { p, .. } => {
            let (pp, r) = rs::<P>(env, *p);
            let gone = s.model.children_keys(r.key());
            env.cur_op = "set.remove_children";
            s.set.remove_children(&pp);
            for k in &gone {
                s.model.remove(*k);
            }
            if r.len == 0 {
                s.drift = 0;
                s.canonical = true;
            } else {
                s.canonical = false;
            }
            if !gone.is_empty() {
                env.ev("removed_hit");
                env.ev("remove_children_hit");
                if !s.model.m.is_empty() {
                    env.ev("remove_children_strict_subset");
                }
            }
            let got: Vec<Key> = s.set.iter().take(lim(&s.model)).map(|p| key_of(p)).collect();
            ensure!(got == s.model.keys(), "C10", "C10:set.remove_children", "step {step}: after PrefixSet::remove_children({:?}) the set holds {:?}, expected {:?}", r.key(), got, s.model.keys());
        }
        Op::Retain { pred, .. } => {
            let before = s.model.keys();
            let uni = env.uni.clone();
            let mut calls: Vec<Key> = Vec::new();
            env.cur_op = "set.retain";
            s.set.retain(|p| {
                let k = key_of(p);
                calls.push(k);
                eval_pred(pred, &uni, P::W, k, 0)
            });
            let mut sorted = calls.clone();
            sorted.sort();
            ensure!(sorted == before, "C10", "C10:set.retain:calls", "step {step}: PrefixSet::retain called its predicate on {:?}, entries were {:?}", calls, before);
            let mut removed = 0;
            for k in &before {
                if !eval_pred(pred, &uni, P::W, *k, 0) {
                    s.model.remove(*k);
                    removed += 1;
                }
            }
            if removed > 0 {
                env.ev("removed_hit");
                env.ev("retain_removed");
                if removed < before.len() {
                    env.ev("retain_nonconstant");
                }
            }
            let got: Vec<Key> = s.set.iter().take(lim(&s.model)).map(|p| key_of(p)).collect();
            ensure!(got == s.model.keys(), "C10", "C10:set.retain:result", "step {step}: after PrefixSet::retain the set holds {:?}, expected {:?}", got, s.model.keys());
        }
        Op::Clear { .. } => {
            env.cur_op = "set.clear";
            s.set.clear();
            s.model.m.clear();
            s.drift = 0;
            s.canonical = true;
            env.ev("clear");
        }
        Op::FromIter { items, .. } => {
            let mut ps = Vec::new();
            let mut model = Model::new();
            for it in items {
                let (pp, r) = rs::<P>(env, *it);
                model.insert(r, 0);
                ps.push(pp);
            }
            env.cur_op = "set.from_iter";
            s.set = PrefixSet::from_iter(ps);
            s.model = model;
            s.drift = 0;
            s.canonical = true;
            s.peak_nodes = 1;
            env.ev("from_iter");
        }
        Op::CloneSwap { .. } | Op::Collect { .. } => {
            env.cur_op = "set.clone";
            let c = s.set.clone();
            ensure!(c.len() == s.set.len(), "C04", "C04:set.clone:len", "step {step}: clone of a set has a different len()");
            s.set = c;
            env.ev("clone_swap");
        }
        Op::BulkInsert { under, n, seed, .. } => {
            let (_, base) = rs::<P>(env, *under);
            let mut sd = *seed;
            env.cur_op = "set.insert";
            for _ in 0..*n {
                sd = splitmix(sd);
                let extra = 1 + (sd % 18) as u8;
                let len = (base.len as u32 + extra as u32).min(P::W as u32) as u8;
                sd = splitmix(sd);
                let rnd = ((sd as u128) << 64) | splitmix(sd ^ 0x9E37) as u128;
                let m = crate::tp::len_mask(base.len);
                let bits = ((base.bits & m) | (rnd & !m)) & crate::tp::width_mask(P::W);
                let p: P = P::make(bits, len);
                let r = raw_of(&p);
                let got = s.set.insert(p);
                let want = s.model.insert(r, 0).is_none();
                ensure!(got == want, "C01", "C01:set.insert:return", "step {step}: PrefixSet::insert({:?}) returned {got}, newly inserted: {want}", r.key());
            }
            if s.model.len() >= 256 {
                env.ev("model_ge256");
            }
        }
        Op::ChainInsert { along, seed, .. } => {
            let (_, base) = rs::<P>(env, *along);
            let mut sd = splitmix(*seed);
            let rnd = ((sd as u128) << 64) | splitmix(sd ^ 0x51) as u128;
            let m = crate::tp::len_mask(base.len);
            let addr = ((base.bits & m) | (rnd & !m)) & crate::tp::width_mask(P::W);
            let mut lens: Vec<u8> = (0..=P::W).collect();
            if sd % 3 == 1 {
                lens.reverse();
            } else if sd % 3 == 2 {
                for i in (1..lens.len()).rev() {
                    sd = splitmix(sd);
                    lens.swap(i, (sd % (i as u64 + 1)) as usize);
                }
            }
            env.cur_op = "set.insert";
            for len in lens {
                let p: P = P::make(addr, len);
                let r = raw_of(&p);
                let got = s.set.insert(p);
                let want = s.model.insert(r, 0).is_none();
                ensure!(got == want, "C01", "C01:set.insert:return", "step {step}: PrefixSet::insert({:?}) returned {got}, newly inserted: {want}", r.key());
                env.uni.push(Raw { bits: addr, len });
            }
            env.ev("chain_full_depth");
        }
        Op::ViewMut { nav, act, .. } => {
            // value insertion / removal through a mutable view of the set
            env.cur_op = "set.view_mut";
            let Some((mut v, scope)) = crate::interp::nav_mut((&mut s.set).view_mut(), nav, env) else {
                return Ok(true);
            };
            let vr = raw_of(v.prefix());
            let vk = vr.key();
            let present = vk == scope && s.model.get(vk).is_some();
            match act {
                ViewAct::Set => {
                    env.cur_op = "set.view_mut.set";
                    match v.set(()) {
                        Ok(prev) => {
                            ensure!(prev.is_some() == present, "C01", "C01:set.view_mut.set:return", "step {step}: TrieViewMut::set on a set view at {:?} returned {:?}, present: {present}", vk, prev);
                            if !present {
                                s.model.insert(vr, 0);
                                env.ev("view_set_on_valueless");
                                if env.tolerate("C04:len:view_mut.set-on-valueless-node") {
                                    s.drift -= 1;
                                    env.ev("tainted");
                                    if env.stop_on_taint {
                                        env.stopped_on_taint = true;
                                    }
                                }
                            }
                        }
                        Err(()) => {
                            ensure!(!present, "C11", "C11:view_mut.set:virtual-but-stored", "step {step}: set at {:?} reports a virtual node although the key is stored", vk);
                        }
                    }
                }
                ViewAct::Remove => {
                    env.cur_op = "set.view_mut.remove";
                    let got = v.remove().is_some();
                    ensure!(got == present, "C01", "C01:set.view_mut.remove:return", "step {step}: TrieViewMut::remove on a set view at {:?} returned {got}, present: {present}", vk);
                    if present {
                        s.model.remove(vk);
                        s.canonical = false;
                        env.ev("removed_hit");
                        env.ev("leftover_created");
                        env.ev("view_remove_hit");
                        if env.tolerate("C04:len:view_mut.remove") {
                            s.drift += 1;
                            env.ev("tainted");
                        }
                    }
                }
                _ => return Ok(false),
            }
        }
        _ => return Ok(false),
    }
    env.cur_op = "";
    Ok(true)
}

pub fn run_set_history<P: TP>(ops: &[Op], env: &mut Env) -> R<SetSide<P>> {
    let mut s = SetSide {
        set: PrefixSet::new(),
        model: Model::new(),
        drift: 0,
        canonical: true,
        peak_nodes: 1,
    };
    for (i, op) in ops.iter().enumerate() {
        env.step = i;
        if op.side() == Some(M::B) {
            continue;
        }
        if apply_set(&mut s, op, env)? {
            env.ev(op.kind_name());
            // structural sanity through the hook, as for maps
            let a = s.set.verif_arena();
            let mut seen = vec![false; a.arena_len];
            let mut stack = vec![0usize];
            let mut bad = false;
            while let Some(i) = stack.pop() {
                if i >= a.arena_len || seen[i] {
                    bad = true;
                    break;
                }
                seen[i] = true;
                if let Some(l) = a.slots[i].0 {
                    stack.push(l);
                }
                if let Some(r) = a.slots[i].1 {
                    stack.push(r);
                }
            }
            if bad {
                return fail("C16", "C16:slot-reached-twice", format!("step {i}: the set's arena has a node that is reachable along two paths"));
            }
            observe_set(&mut s, env)?;
            if s.model.len() >= 3 {
                env.ev("live_ge3");
            }
            if env.stopped_on_taint {
                break;
            }
        }
    }
    Ok(s)
}
