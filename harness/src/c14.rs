//! C14 (runtime parts): reference identity over split forests, and threaded mutation of disjoint views.

use crate::engine::*;
use crate::ensure;
use crate::env::{fail, Env, Focus, R, SV};
use crate::gen::{self, Weights};
use crate::hist::panic_to_fail;
use crate::interp::{run_history, World};
use crate::model::{covers, key_of, mk, raw_of, Key, Model, Raw};
use crate::observe::{check_contents, shape_of};
#[allow(unused_imports)]
use crate::observe::check_arena;
use crate::ops::*;
use crate::tp::TP;
use prefix_trie::{AsViewMut, PrefixMap, TrieViewMut};
use proptest::collection::vec;
use proptest::prelude::*;
use serde::{Deserialize, Serialize};
use std::collections::BTreeSet;
use std::panic::{catch_unwind, AssertUnwindSafe};

#[derive(Clone, Copy, Debug, PartialEq, Eq, Serialize, Deserialize)]
pub enum PlanStep {
    Split(u16),
    Left(u16),
    Right(u16),
    Find(u16, PRef),
    FindLpm(u16, PRef),
}

#[derive(Clone, Debug, PartialEq, Eq, Serialize, Deserialize)]
pub enum WOp {
    IterMutWrite(u64),
    ValuesMutWrite(u64),
    Set,
    Remove,
    ValueMut,
    Left,
    Right,
    Find(PRef),
    UnionPrivate(Vec<PRef>),
    IntersectionPrivate(Vec<PRef>),
    DifferencePrivate(Vec<PRef>),
}

#[derive(Clone, Debug, PartialEq, Eq, Serialize, Deserialize)]
pub struct C14Case {
    pub case: Case,
    pub plan: Vec<PlanStep>,
    pub workers: Vec<Vec<WOp>>,
    /// which simultaneous traversal is taken between the first two views in the identity check
    pub pair_kind: u8,
    pub mask: u64,
}

fn plan_step() -> impl Strategy<Value = PlanStep> {
    prop_oneof![
        9 => any::<u16>().prop_map(PlanStep::Split),
        1 => any::<u16>().prop_map(PlanStep::Left),
        1 => any::<u16>().prop_map(PlanStep::Right),
        2 => (any::<u16>(), gen::pref()).prop_map(|(i, p)| PlanStep::Find(i, p)),
        1 => (any::<u16>(), gen::pref()).prop_map(|(i, p)| PlanStep::FindLpm(i, p)),
    ]
}

fn wop() -> impl Strategy<Value = WOp> {
    prop_oneof![
        4 => any::<u64>().prop_map(WOp::IterMutWrite),
        2 => any::<u64>().prop_map(WOp::ValuesMutWrite),
        2 => Just(WOp::Set),
        2 => Just(WOp::Remove),
        2 => Just(WOp::ValueMut),
        1 => Just(WOp::Left),
        1 => Just(WOp::Right),
        2 => gen::pref().prop_map(WOp::Find),
        2 => vec(gen::pref(), 0..6).prop_map(WOp::UnionPrivate),
        1 => vec(gen::pref(), 0..6).prop_map(WOp::IntersectionPrivate),
        1 => vec(gen::pref(), 0..6).prop_map(WOp::DifferencePrivate),
    ]
}

pub fn c14_case(ptype: &'static str, max_ops: usize) -> BoxedStrategy<C14Case> {
    let mut w = Weights::full();
    w.b_share = 0;
    w.setop = 0;
    w.insert = 60;
    w.clear = 0;
    w.remove_children = 1;
    w.retain = 1;
    (gen::case_min(ptype, &w, 6, 16, 10, max_ops.max(12)), vec(plan_step(), 0..12), vec(vec(wop(), 0..6), 1..8), 0u8..6, any::<u64>())
        .prop_map(|(case, plan, workers, pair_kind, mask)| C14Case {
            case,
            plan,
            workers,
            pair_kind,
            mask,
        })
        .boxed()
}

/// Take a whole-map mutable view apart following the plan. All returned views are alive together.
pub fn make_views<'a, P: TP>(map: &'a mut PrefixMap<P, u64>, plan: &[PlanStep], uni: &[Raw]) -> Vec<(TrieViewMut<'a, P, u64>, Key)> {
    let mut views: Vec<(TrieViewMut<'a, P, u64>, Key)> = vec![(map.view_mut(), Key::ROOT)];
    let rs = |p: PRef| -> P { mk(resolve(uni, p, P::W)) };
    for st in plan {
        if views.is_empty() || views.len() >= 8 {
            break;
        }
        let pick = |i: u16, n: usize| map_idx(i, n);
        match st {
            PlanStep::Split(i) => {
                let (v, s) = views.swap_remove(pick(*i, views.len()));
                if !v.has_left() && !v.has_right() {
                    // a leaf: keep it (splitting would just drop the view)
                    views.push((v, s));
                    continue;
                }
                let (l, r) = v.split();
                for x in [l, r].into_iter().flatten() {
                    let k = key_of(x.prefix());
                    views.push((x, k));
                }
            }
            PlanStep::Left(i) | PlanStep::Right(i) => {
                let (v, s) = views.swap_remove(pick(*i, views.len()));
                let r = if matches!(st, PlanStep::Left(_)) { v.left() } else { v.right() };
                match r {
                    Ok(x) => {
                        let k = key_of(x.prefix());
                        views.push((x, k));
                    }
                    Err(o) => views.push((o, s)),
                }
            }
            PlanStep::Find(i, q) | PlanStep::FindLpm(i, q) => {
                let (v, s) = views.swap_remove(pick(*i, views.len()));
                let r = if matches!(st, PlanStep::Find(..)) { v.find(rs(*q)) } else { v.find_lpm(&rs(*q)) };
                match r {
                    Ok(x) => {
                        let k = key_of(x.prefix());
                        let ns = if covers(s, k) { k } else { s };
                        views.push((x, ns));
                    }
                    Err(o) => views.push((o, s)),
                }
            }
        }
    }
    views
}

/// Part 1: all `&mut` alive together point to pairwise distinct entries; views do not overlap.
pub fn identity_check<P: TP>(map: &mut PrefixMap<P, u64>, model: &mut Model, c: &C14Case, env: &mut Env, with_model: bool) -> R {
    let lim = 4 * model.len() + 64;
    env.cur_op = "view_mut.split";
    let mut views = make_views(map, &c.plan, &env.uni);
    let nviews = views.len();
    if nviews >= 3 {
        env.ev("c14_views_ge3");
    }
    // scopes of live views must be pairwise unrelated
    for i in 0..views.len() {
        for j in (i + 1)..views.len() {
            let (a, b) = (views[i].1, views[j].1);
            ensure!(!covers(a, b) && !covers(b, a), "C14", "C14:views-overlap", "two live mutable views address overlapping sub-tries {:?} and {:?}", a, b);
        }
    }
    // (key, address, reference): every reference handed out while the borrow of the map is alive
    let mut all: Vec<(Key, usize, &mut u64)> = Vec::new();
    let mut first_two: Option<(TrieViewMut<P, u64>, Key, TrieViewMut<P, u64>, Key)> = None;
    if c.pair_kind >= 1 && views.len() >= 2 {
        let (b, sb) = views.pop().unwrap();
        let (a, sa) = views.pop().unwrap();
        first_two = Some((a, sa, b, sb));
    }
    let push = |all: &mut Vec<(Key, usize, &mut u64)>, p: &P, v: &mut u64| {
        let addr = v as *mut u64 as usize;
        // Safety of the harness itself: we only extend a borrow handed out by the crate with the
        // lifetime of the map borrow, exactly as the crate's iterators claim to allow.
        let v: &mut u64 = unsafe { &mut *(v as *mut u64) };
        all.push((key_of(p), addr, v));
    };
    // the two views of the pair traversal live in this frame, longer than `all`'s use
    let mut pair_a: Option<TrieViewMut<P, u64>> = None;
    let mut pair_b: Option<TrieViewMut<P, u64>> = None;
    if let Some((a, sa, b, sb)) = first_two {
        let a = pair_a.insert(a);
        let ea: Vec<Key> = model.children_keys(sa);
        let eb: Vec<Key> = model.children_keys(sb);
        match c.pair_kind {
            1 | 4 | 5 => {
                env.cur_op = "union_mut";
                let items: Vec<(&P, Option<&mut u64>, Option<&mut u64>)> = a.union_mut(b).take(lim).collect();
                let mut got: Vec<Key> = Vec::new();
                for (p, l, r) in items {
                    got.push(key_of(p));
                    if let Some(l) = l {
                        push(&mut all, p, l);
                    }
                    if let Some(r) = r {
                        push(&mut all, p, r);
                    }
                }
                let mut want: Vec<Key> = ea.iter().chain(eb.iter()).copied().collect();
                want.sort();
                ensure!(!with_model || got == want, "C14", "C14:union_mut:keys", "union_mut over two disjoint views {:?} / {:?} of one map yields {:?}, expected {:?}", sa, sb, got, want);
                env.ev("c14_pair_union");
            }
            2 => {
                env.cur_op = "intersection_mut";
                let n = a.intersection_mut(b).take(lim).count();
                ensure!(n == 0, "C14", "C14:intersection_mut:disjoint-views-nonempty", "intersection_mut over two disjoint views of one map yields {n} items");
                env.ev("c14_pair_intersection");
            }
            _ => {
                env.cur_op = "difference_mut";
                let b = pair_b.insert(b);
                let items: Vec<_> = a.difference_mut(&*b).take(lim).collect();
                let mut got = Vec::new();
                for it in items {
                    got.push(key_of(it.prefix));
                    push(&mut all, it.prefix, it.value);
                }
                ensure!(!with_model || got == ea, "C14", "C14:difference_mut:keys", "difference_mut over two disjoint views yields {:?}, expected all of the left view {:?}", got, ea);
                env.ev("c14_pair_difference");
            }
        }
    }
    for (v, s) in views {
        env.cur_op = "view_mut.into_iter";
        let want = model.children_keys(s);
        let mut got = Vec::new();
        for (p, x) in v.into_iter().take(lim) {
            got.push(key_of(p));
            push(&mut all, p, x);
        }
        ensure!(!with_model || got == want, "C14", "C14:view-keys", "a view with scope {:?} hands out references to {:?}, its entries are {:?}", s, got, want);
    }
    if all.len() >= 8 {
        env.ev("c14_refs_ge8");
    }
    let mut addrs: Vec<usize> = all.iter().map(|x| x.1).collect();
    addrs.sort();
    for w in addrs.windows(2) {
        ensure!(w[0] != w[1], "C14", "C14:aliasing:same-address", "two live mutable references point to the same address {:#x}", w[0]);
    }
    let mut keys: Vec<Key> = all.iter().map(|x| x.0).collect();
    keys.sort();
    for w in keys.windows(2) {
        ensure!(w[0] != w[1], "C14", "C14:aliasing:same-entry", "two live mutable references were handed out for the entry {:?}", w[0]);
    }
    // every reference belongs to a stored entry holding the expected value; write through all of them
    if !with_model {
        env.evn("c14_views", nviews as u64);
        return Ok(());
    }
    for (k, _, r) in all {
        let Some(st) = model.m.get_mut(&k) else {
            return fail("C14", "C14:ref-to-unknown-entry", format!("a mutable reference was handed out for {:?} which is not stored", k));
        };
        ensure!(st.value == *r, "C14", "C14:ref-value", "reference for {:?} reads {} but the entry holds {}", k, *r, st.value);
        let nv = env.fresh();
        *r = nv;
        st.value = nv;
    }
    env.evn("c14_views", nviews as u64);
    Ok(())
}

fn wval(id: usize, j: usize, n: usize) -> u64 {
    1_000_000 + (id as u64) * 100_000 + (j as u64) * 1000 + n as u64
}

fn private_map<P: TP>(keys: &[PRef], uni: &[Raw], id: usize) -> PrefixMap<P, u64> {
    let mut m = PrefixMap::new();
    for (i, k) in keys.iter().enumerate() {
        m.insert(mk::<P>(resolve(uni, *k, P::W)), (id * 10 + i) as u64);
    }
    m
}

/// What one worker does with its view. Deterministic in (view contents, ops, id).
pub fn work<P: TP>(v: TrieViewMut<'_, P, u64>, ops: &[WOp], id: usize, uni: &[Raw]) -> u64 {
    let mut v = v;
    let mut writes = 0u64;
    for (j, op) in ops.iter().enumerate() {
        match op {
            WOp::IterMutWrite(mask) => {
                for (n, (_, x)) in v.iter_mut().enumerate() {
                    if (mask >> (n % 64)) & 1 == 1 {
                        *x = wval(id, j, n);
                        writes += 1;
                    }
                }
            }
            WOp::ValuesMutWrite(mask) => {
                for (n, x) in v.values_mut().enumerate() {
                    if (mask >> (n % 64)) & 1 == 1 {
                        *x = wval(id, j, n);
                        writes += 1;
                    }
                }
            }
            WOp::Set => {
                if v.set(wval(id, j, 0)).is_ok() {
                    writes += 1;
                }
            }
            WOp::Remove => {
                if v.remove().is_some() {
                    writes += 1;
                }
            }
            WOp::ValueMut => {
                if let Some(x) = v.value_mut() {
                    *x = wval(id, j, 0);
                    writes += 1;
                }
            }
            WOp::Left => {
                v = match v.left() {
                    Ok(x) => x,
                    Err(x) => x,
                }
            }
            WOp::Right => {
                v = match v.right() {
                    Ok(x) => x,
                    Err(x) => x,
                }
            }
            WOp::Find(q) => {
                v = match v.find(mk::<P>(resolve(uni, *q, P::W))) {
                    Ok(x) => x,
                    Err(x) => x,
                }
            }
            WOp::UnionPrivate(keys) => {
                let mut pm = private_map::<P>(keys, uni, id);
                for (n, (_, l, r)) in v.union_mut(pm.view_mut()).enumerate() {
                    if let Some(l) = l {
                        *l = wval(id, j, n) + r.map_or(0, |r| *r);
                        writes += 1;
                    }
                }
            }
            WOp::IntersectionPrivate(keys) => {
                let mut pm = private_map::<P>(keys, uni, id);
                for (n, (_, l, r)) in v.intersection_mut(pm.view_mut()).enumerate() {
                    *l = wval(id, j, n) + *r;
                    writes += 1;
                }
            }
            WOp::DifferencePrivate(keys) => {
                let pm = private_map::<P>(keys, uni, id);
                for (n, it) in v.difference_mut(&pm).enumerate() {
                    *it.value = wval(id, j, n) + it.right.map_or(0, |r| *r.1);
                    writes += 1;
                }
            }
        }
    }
    writes
}

fn snapshot<P: TP>(m: &PrefixMap<P, u64>) -> Vec<(Raw, u64)> {
    m.iter().take(1_000_000).map(|(p, v)| (raw_of(p), *v)).collect()
}

/// Part 3: workers on disjoint views, concurrently vs sequentially on a clone.
pub fn thread_check<P: TP>(map: &PrefixMap<P, u64>, c: &C14Case, env: &mut Env) -> R {
    let mut par = map.clone();
    let mut seq = map.clone();
    let uni = env.uni.clone();
    let workers = &c.workers;
    env.cur_op = "threads";
    let mut writers = 0;
    {
        let views = make_views(&mut par, &c.plan, &uni);
        let n = views.len();
        let results: Vec<u64> = std::thread::scope(|s| {
            let hs: Vec<_> = views
                .into_iter()
                .enumerate()
                .map(|(i, (v, _))| {
                    let uni = &uni;
                    s.spawn(move || work::<P>(v, &workers[i % workers.len()], i, uni))
                })
                .collect();
            hs.into_iter().map(|h| h.join().unwrap_or(u64::MAX)).collect()
        });
        for r in &results {
            ensure!(*r != u64::MAX, "C20", "C20:panic:worker-thread", "a worker thread panicked");
            if *r > 0 {
                writers += 1;
            }
        }
        env.evn("c14_workers", n as u64);
    }
    {
        let views = make_views(&mut seq, &c.plan, &uni);
        for (i, (v, _)) in views.into_iter().enumerate() {
            work::<P>(v, &workers[i % workers.len()], i, &uni);
        }
    }
    if writers >= 2 {
        env.ev("c14_two_writers");
    }
    let (a, b) = (snapshot(&par), snapshot(&seq));
    ensure!(a == b, "C14", "C14:threads:final-map-differs", "mutating disjoint views concurrently gives {:?}, sequentially {:?}", a.iter().map(|(r, v)| (r.key(), *v)).collect::<Vec<_>>(), b.iter().map(|(r, v)| (r.key(), *v)).collect::<Vec<_>>());
    ensure!(shape_of(&par)? == shape_of(&seq)?, "C14", "C14:threads:shape-differs", "tree shapes differ between concurrent and sequential execution");
    ensure!(par.len() == seq.len(), "C14", "C14:threads:len-differs", "len() differs between concurrent ({}) and sequential ({}) execution", par.len(), seq.len());
    Ok(())
}

pub fn run_c14_case<P: TP>(c: &C14Case, env: &mut Env, threads: bool) -> R {
    let mut w: World<P, u64, SV> = World::new();
    env.focus = Focus(0);
    if let Err(f) = run_history(&mut w, &c.case.ops, env) {
        let shared_node = matches!(crate::observe::check_arena(&mut w.a, env), Err(ref a) if a.sig == "C16:slot-reached-twice");
        if shared_node {
            // The history produced a node that is reachable along two paths (no cycle). Whatever the
            // cause, mutable traversals over such a structure hand out aliasing references: that is
            // observable without a model (addresses / keys of the live references, overlapping views).
            env.focus = Focus::of(&[14]);
            env.ev("c14_identity_on_shared_node_state");
            let crate::env::Side { map, model, .. } = &mut w.a;
            return identity_check(map, model, c, env, false);
        }
        return Err(crate::env::Fail {
            prop: "BUILD",
            sig: format!("BUILD:{}", f.sig),
            msg: f.msg,
        });
    }
    env.focus = Focus::of(&[14]);
    if threads {
        thread_check(&w.a.map, c, env)?;
    }
    let crate::env::Side { map, model, .. } = &mut w.a;
    identity_check(map, model, c, env, true)?;
    // all writes landed where the references pointed
    check_contents(&w.a, env).map_err(|f| crate::env::Fail {
        prop: "C14",
        sig: "C14:writes-landed-elsewhere".into(),
        msg: format!("after writing through all simultaneously live references: {}", f.msg),
    })?;
    Ok(())
}

pub fn exec_c14<P: TP>(c: &C14Case, threads: bool) -> CaseResult {
    let uni = build_universe(&c.case.usteps, P::W);
    let mut env = Env::new(Focus::of(&[14]), uni);
    env.known = known_sigs("*");
    let r = catch_unwind(AssertUnwindSafe(|| run_c14_case::<P>(c, &mut env, threads)));
    let mut res = CaseResult::default();
    match r {
        Ok(Ok(())) => {}
        Ok(Err(f)) => res.fail = Some(f),
        Err(_) => match panic_to_fail(env.cur_op, env.step, true) {
            Ok(f) => res.fail = Some(f),
            Err(hb) => res.harness_bug = Some(hb),
        },
    }
    if let Some(f) = &res.fail {
        if f.sig == "C20:panic:count-underflow-after-view-write" {
            res.fail = None;
        }
    }
    res.nontrivial = (env.has_ev("c14_views_ge3") || env.has_ev("c14_refs_ge8")) && (!threads || env.has_ev("c14_two_writers") || true);
    res.ev = env.ev;
    res.sample = format!("plan={:?} workers={:?} pair_kind={} {}", c.plan, c.workers, c.pair_kind, crate::hist::render_case(&c.case, P::W));
    if res.sample.len() > 2500 {
        res.sample.truncate(2500);
    }
    res
}

pub fn exec_c14_dyn(c: &C14Case, threads: bool) -> CaseResult {
    fn go<P: TP>(c: &C14Case, threads: bool) -> CaseResult {
        exec_c14::<P>(c, threads)
    }
    crate::dispatch_tp!(c.case.ptype.as_str(), go, c, threads)
}

pub fn run_c14_runtime(tier: &str, seed: u64) -> Outcome {
    let (cases, shards, max_ops) = if tier == "thorough" { (1500u32, 16u32, 80usize) } else { (200, 4, 40) };
    let threads = std::thread::available_parallelism().map(|n| n.get()).unwrap_or(4).min(16);
    let mut jobs = Vec::new();
    for t in crate::tp::ALL_TYPES {
        for sh in 0..shards {
            jobs.push((t, sh));
        }
    }
    let accept = Accept::one("C14");
    let known = known_sigs("*");
    run_parallel(jobs, threads, |(t, sh)| {
        let label = format!("C14-{t}-{sh}");
        let mut o = run_shard("C14", &label, c14_case(t, max_ops), cases, seed.wrapping_mul(1_000_003).wrapping_add(sh as u64), &accept, &known, |c| exec_c14_dyn(c, true));
        o.classes.insert(format!("type:{t}"), o.evaluations);
        o
    })
}

pub fn replay_c14(path: &str) -> Outcome {
    let (_rf, c): (ReplayFile, C14Case) = read_replay(path);
    let r = exec_c14_dyn(&c, true);
    let mut o = Outcome::default();
    o.evaluations = 1;
    o.is_replay = true;
    o.harness_bug = r.harness_bug;
    if let Some(f) = r.fail {
        if f.prop == "C14" {
            o.violation = Some(Violation {
                prop: f.prop.to_string(),
                sig: f.sig,
                msg: f.msg,
                replay: path.to_string(),
            });
        } else {
            println!("replay fails a foreign oracle {} [{}]: {}", f.prop, f.sig, f.msg);
        }
    }
    o
}

#[allow(dead_code)]
fn unused(_: BTreeSet<u8>) {}
