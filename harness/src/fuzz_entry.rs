//! Entry points used by the libFuzzer targets in /verif/fuzz and by `ptv --replay-bytes`.

use crate::checks::{parts, Part};
use crate::engine::*;
use crate::fuzzdec::{decode_case, decode_pair};
use crate::hist::{exec_hist_dyn, HistSpec};
use crate::pairs::{exec_pair_dyn, PairSpec};
use std::collections::BTreeSet;
use std::sync::OnceLock;

struct Ctx {
    id: String,
    hist: Option<HistSpec>,
    pair: Option<PairSpec>,
    known: BTreeSet<String>,
}

static CTX: OnceLock<Ctx> = OnceLock::new();

fn ctx() -> &'static Ctx {
    CTX.get_or_init(|| {
        install_panic_hook();
        let id = std::env::var("PTV_FUZZ_PROP").unwrap_or_else(|_| "C01".to_string());
        let id_static: &'static str = Box::leak(id.clone().into_boxed_str());
        let (ps, _) = parts(id_static, "thorough").expect("unknown property for fuzzing");
        let mut hist = None;
        let mut pair = None;
        for p in ps {
            match p {
                Part::Hist(mut h) if hist.is_none() && !h.set_mode => {
                    // keep an execution cheap: the neighbour query set instead of all 511 prefixes
                    h.full_queries = false;
                    hist = Some(h)
                }
                Part::Pair(p) if pair.is_none() => pair = Some(p),
                _ => {}
            }
        }
        Ctx { id, hist, pair, known: known_sigs("*") }
    })
}

/// Returns Some((property, signature, message, json case)) on a violation.
pub fn run_ops_bytes(data: &[u8], strict: bool) -> Option<(String, String, String, serde_json::Value)> {
    let c = ctx();
    let spec = c.hist.as_ref()?;
    let case = decode_case(data, true, 64);
    let known = if strict { BTreeSet::new() } else { c.known.clone() };
    let r = exec_hist_dyn(&case, spec, &known, strict);
    let f = r.fail?;
    let accept = Accept { props: spec.accept.clone() };
    if accept.accepts(&f) && !known.contains(&f.sig) {
        return Some((f.prop.to_string(), f.sig, f.msg, serde_json::to_value(&case).unwrap()));
    }
    None
}

pub fn run_pair_bytes(data: &[u8], strict: bool) -> Option<(String, String, String, serde_json::Value)> {
    let c = ctx();
    let spec = c.pair.as_ref()?;
    let pc = decode_pair(data);
    let known = if strict { BTreeSet::new() } else { c.known.clone() };
    let r = exec_pair_dyn(&pc, spec, &known, strict);
    let f = r.fail?;
    let accept = Accept { props: spec.accept.clone() };
    if accept.accepts(&f) && !known.contains(&f.sig) {
        return Some((f.prop.to_string(), f.sig, f.msg, serde_json::to_value(&pc).unwrap()));
    }
    None
}

/// Called from the fuzz targets: abort (= libFuzzer crash artifact) on a violation.
pub fn fuzz_one(target: &str, data: &[u8]) {
    let r = if target == "setops" { run_pair_bytes(data, false) } else { run_ops_bytes(data, false) };
    if let Some((p, sig, msg, _)) = r {
        eprintln!("FUZZ-VIOLATION property={} oracle={} [{}] {}", ctx().id, p, sig, msg);
        std::process::abort();
    }
}

/// `ptv <ID> quick --replay-bytes <file> [--target ops|setops]`
pub fn replay_bytes(id: &str, target: &str, path: &str) -> i32 {
    std::env::set_var("PTV_FUZZ_PROP", id);
    let data = match std::fs::read(path) {
        Ok(d) => d,
        Err(e) => {
            eprintln!("cannot read {path}: {e}");
            return 2;
        }
    };
    let r = if target == "setops" { run_pair_bytes(&data, true) } else { run_ops_bytes(&data, true) };
    match r {
        None => {
            println!("REPLAY-OK property={id} (bytes {path})");
            0
        }
        Some((p, sig, msg, case)) => {
            let replay = write_replay(id, &format!("{id}-fuzz-{target}"), 0, &case, &p, &sig, &msg);
            println!("violated oracle: {p} [{sig}]\n{msg}");
            println!("VIOLATION property={id} replay={replay}");
            1
        }
    }
}

/// Thorough-tier campaign: `cargo +nightly fuzz run` on a fresh, seeded corpus with fixed work.
pub fn run_campaign(id: &str, target: &str, runs: u64, seed: u64) -> Outcome {
    use std::process::Command;
    let root = verif_root();
    let mut o = Outcome::default();
    let corpus = format!("{root}/out/fuzz-corpus/{id}-{target}-{seed}");
    let _ = std::fs::remove_dir_all(&corpus);
    if let Err(e) = std::fs::create_dir_all(&corpus) {
        o.harness_bug = Some(format!("cannot create {corpus}: {e}"));
        return o;
    }
    let art = format!("{root}/out/fuzz-artifacts");
    let _ = std::fs::create_dir_all(&art);
    // seed corpus: 48 pseudo-random inputs of 60..300 bytes (libFuzzer ramps lengths slowly from empty)
    let mut s = crate::ops::splitmix(seed ^ 0xF00D);
    for i in 0..48 {
        s = crate::ops::splitmix(s);
        let len = 60 + (s % 240) as usize;
        let mut bytes = Vec::with_capacity(len);
        while bytes.len() < len {
            s = crate::ops::splitmix(s);
            bytes.extend_from_slice(&s.to_le_bytes());
        }
        bytes.truncate(len);
        let _ = std::fs::write(format!("{corpus}/seed{i:02}"), &bytes);
    }
    let _ = std::fs::copy(format!("{root}/harness/Cargo.lock"), format!("{root}/fuzz/Cargo.lock"));
    // AddressSanitizer reserves terabytes of address space: lift the soft cap set by the check script
    let cmd = format!(
        "ulimit -S -v unlimited 2>/dev/null; exec cargo +nightly fuzz run --fuzz-dir {root}/fuzz {target} {corpus} -- -runs={runs} -seed={} -len_control=0 -max_len=400 -detect_leaks=0 -print_final_stats=1 -artifact_prefix={art}/{id}-{target}-",
        seed.max(1)
    );
    let out = Command::new("bash")
        .args(["-c", &cmd])
        .current_dir(format!("{root}/fuzz"))
        .env("PTV_FUZZ_PROP", id)
        .env("ASAN_OPTIONS", "detect_leaks=0")
        .env("PTV_ROOT", &root)
        .env("CARGO_NET_OFFLINE", "true")
        .output();
    let out = match out {
        Ok(o) => o,
        Err(e) => {
            o.harness_bug = Some(format!("cannot run cargo fuzz: {e}"));
            return o;
        }
    };
    let se = String::from_utf8_lossy(&out.stderr).to_string();
    let done: u64 = se.lines().find_map(|l| l.strip_prefix("Done ").and_then(|r| r.split(' ').next()).and_then(|n| n.parse().ok())).unwrap_or(0);
    let executed: u64 = se.lines().find_map(|l| l.strip_prefix("stat::number_of_executed_units:").and_then(|n| n.trim().parse().ok())).unwrap_or(done);
    let cov: u64 = se.lines().rev().find_map(|l| l.split("cov: ").nth(1).and_then(|r| r.split(' ').next()).and_then(|n| n.parse().ok())).unwrap_or(0);
    o.evaluations = executed;
    o.extra.insert(format!("libfuzzer_{target}"), serde_json::json!({"runs_requested": runs, "executed": executed, "coverage_edges": cov, "seed": seed, "corpus": corpus, "note": "coverage-guided campaign on the few-types build (u8, u32, u128, ipnet4, inet6); approximately reproducible, the artifact is the reproducible unit"}));
    if let Some(path) = se.lines().find_map(|l| l.split("Test unit written to ").nth(1)).map(|s| s.trim().to_string()) {
        // a crash: classify it by replaying the bytes in-process (strict mode)
        std::env::set_var("PTV_FUZZ_PROP", id);
        let data = std::fs::read(&path).unwrap_or_default();
        let r = if target == "setops" { run_pair_bytes(&data, true) } else { run_ops_bytes(&data, true) };
        match r {
            Some((p, sig, msg, case)) => {
                let replay = write_replay(id, &format!("{id}-fuzz-{target}"), seed, &case, &p, &sig, &msg);
                o.violation = Some(Violation { prop: p, sig, msg, replay });
            }
            None => {
                o.harness_bug = Some(format!("the fuzz target crashed on {path} but the input does not fail when replayed in-process: {}", se.lines().filter(|l| l.contains("FUZZ-VIOLATION") || l.contains("ERROR") || l.contains("panicked")).take(3).collect::<Vec<_>>().join(" | ")));
            }
        }
    } else if !out.status.success() {
        o.harness_bug = Some(format!("cargo fuzz failed (status {:?}): {}", out.status.code(), se.lines().rev().take(12).collect::<Vec<_>>().join(" | ")));
    }
    o
}
