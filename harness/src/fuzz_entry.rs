//! Entry points used by the libFuzzer targets in /verif/fuzz and by `ptv --replay-bytes`.

use crate::checks::{parts, Part};
use crate::engine::*;
use crate::fuzzdec::{decode_case, decode_pair};
use crate::hist::{exec_hist_dyn, HistSpec};
use crate::pairs::{exec_pair_dyn, PairSpec};
use std::collections::BTreeSet;
use std::sync::OnceLock;

struct Ctx {
    id: String,
    hist: Option<HistSpec>,
    pair: Option<PairSpec>,
    known: BTreeSet<String>,
}

static CTX: OnceLock<Ctx> = OnceLock::new();

fn ctx() -> &'static Ctx {
    CTX.get_or_init(|| {
        install_panic_hook();
        let id = std::env::var("PTV_FUZZ_PROP").unwrap_or_else(|_| "C01".to_string());
        let id_static: &'static str = Box::leak(id.clone().into_boxed_str());
        let (ps, _) = parts(id_static, "thorough").expect("unknown property for fuzzing");
        let mut hist = None;
        let mut pair = None;
        for p in ps {
            match p {
                Part::Hist(h) if hist.is_none() && !h.set_mode => hist = Some(h),
                Part::Pair(p) if pair.is_none() => pair = Some(p),
                _ => {}
            }
        }
        Ctx { id, hist, pair, known: known_sigs("*") }
    })
}

/// Returns Some((property, signature, message, json case)) on a violation.
pub fn run_ops_bytes(data: &[u8], strict: bool) -> Option<(String, String, String, serde_json::Value)> {
    let c = ctx();
    let spec = c.hist.as_ref()?;
    let case = decode_case(data, true, 64);
    let known = if strict { BTreeSet::new() } else { c.known.clone() };
    let r = exec_hist_dyn(&case, spec, &known, strict);
    let f = r.fail?;
    let accept = Accept { props: spec.accept.clone() };
    if accept.accepts(&f) && !known.contains(&f.sig) {
        return Some((f.prop.to_string(), f.sig, f.msg, serde_json::to_value(&case).unwrap()));
    }
    None
}

pub fn run_pair_bytes(data: &[u8], strict: bool) -> Option<(String, String, String, serde_json::Value)> {
    let c = ctx();
    let spec = c.pair.as_ref()?;
    let pc = decode_pair(data);
    let known = if strict { BTreeSet::new() } else { c.known.clone() };
    let r = exec_pair_dyn(&pc, spec, &known, strict);
    let f = r.fail?;
    let accept = Accept { props: spec.accept.clone() };
    if accept.accepts(&f) && !known.contains(&f.sig) {
        return Some((f.prop.to_string(), f.sig, f.msg, serde_json::to_value(&pc).unwrap()));
    }
    None
}

/// Called from the fuzz targets: abort (= libFuzzer crash artifact) on a violation.
pub fn fuzz_one(target: &str, data: &[u8]) {
    let r = if target == "setops" { run_pair_bytes(data, false) } else { run_ops_bytes(data, false) };
    if let Some((p, sig, msg, _)) = r {
        eprintln!("FUZZ-VIOLATION property={} oracle={} [{}] {}", ctx().id, p, sig, msg);
        std::process::abort();
    }
}

/// `ptv <ID> quick --replay-bytes <file> [--target ops|setops]`
pub fn replay_bytes(id: &str, target: &str, path: &str) -> i32 {
    std::env::set_var("PTV_FUZZ_PROP", id);
    let data = match std::fs::read(path) {
        Ok(d) => d,
        Err(e) => {
            eprintln!("cannot read {path}: {e}");
            return 2;
        }
    };
    let r = if target == "setops" { run_pair_bytes(&data, true) } else { run_ops_bytes(&data, true) };
    match r {
        None => {
            println!("REPLAY-OK property={id} (bytes {path})");
            0
        }
        Some((p, sig, msg, case)) => {
            let replay = write_replay(id, &format!("{id}-fuzz-{target}"), 0, &case, &p, &sig, &msg);
            println!("violated oracle: {p} [{sig}]\n{msg}");
            println!("VIOLATION property={id} replay={replay}");
            1
        }
    }
}
