//! Engine 4: run the deterministic C13/C14 driver (`src/bin/miri_c14.rs`) under Miri.
//!
//! Miri owns the thread schedule (one schedule per `-Zmiri-seed`) and detects data races on real
//! accesses, out-of-bounds, use-after-free and uninitialised reads inside the crate's unsafe code.
//! Borrow tracking (Stacked/Tree Borrows) is switched off: the listed property speaks about the
//! references handed to the client and about the final map, not about the transient internal
//! `&[Node]` re-borrows of the arena, which both aliasing models flag (see DESIGN.md, section 7).

use crate::engine::*;
use serde::{Deserialize, Serialize};
use std::process::Command;

#[derive(Clone, Debug, Serialize, Deserialize)]
pub struct MiriCase {
    pub miri: bool,
    pub case_seed: u64,
    pub k: u64,
    pub miri_seed: u64,
    /// Stacked Borrows enabled, operations restricted to those that reach nodes through Table::get_mut
    #[serde(default)]
    pub sb: bool,
}

fn run_one(case_seed: u64, first: u64, n: u64, miri_seed: u64, sb: bool) -> Result<(u64, u64), (Option<u64>, String, String)> {
    let root = verif_root();
    let out = Command::new("cargo")
        .args(["+nightly", "miri", "run", "--quiet", "--bin", "miri_c14", "--target-dir", &format!("{root}/target/miri"), "--", &case_seed.to_string(), &first.to_string(), &n.to_string(), "threads", if sb { "sb" } else { "all" }])
        .current_dir(format!("{root}/harness"))
        .env("CARGO_NET_OFFLINE", "true")
        .env("MIRIFLAGS", format!("-Zmiri-seed={miri_seed} -Zmiri-disable-isolation{}", if sb { "" } else { " -Zmiri-disable-stacked-borrows" }))
        .output()
        .map_err(|e| (None, "infra".to_string(), format!("cannot run cargo miri: {e}")))?;
    let so = String::from_utf8_lossy(&out.stdout).to_string();
    let se = String::from_utf8_lossy(&out.stderr).to_string();
    let last_case = so.lines().filter_map(|l| l.strip_prefix("MIRI-CASE ")).filter_map(|x| x.trim().parse::<u64>().ok()).last();
    if let Some(l) = so.lines().find(|l| l.starts_with("MIRI-DONE")) {
        let nt = l.split("nontrivial=").nth(1).and_then(|x| x.trim().parse().ok()).unwrap_or(0);
        return Ok((n, nt));
    }
    if let Some(l) = so.lines().find(|l| l.starts_with("MIRI-FAIL")) {
        return Err((last_case, "C14:miri:oracle".into(), l.to_string()));
    }
    if let Some(i) = se.find("Undefined Behavior") {
        let msg: String = se[i..].lines().take(12).collect::<Vec<_>>().join("\n");
        let first_line = se[i..].lines().next().unwrap_or("").to_string();
        let class = if first_line.contains("Data race") {
            "data-race"
        } else if first_line.contains("out-of-bounds") || first_line.contains("dangling") {
            "memory"
        } else {
            "undefined-behaviour"
        };
        return Err((last_case, format!("C14:miri:{class}"), msg));
    }
    if se.contains("panicked") || so.contains("MIRI-HARNESS-BUG") {
        return Err((last_case, "infra".into(), format!("driver panicked under Miri:\n{}", se.lines().rev().take(15).collect::<Vec<_>>().join("\n"))));
    }
    Err((last_case, "infra".into(), format!("cargo miri failed (status {:?}):\n{}", out.status.code(), se.lines().rev().take(20).collect::<Vec<_>>().join("\n"))))
}

pub fn run_miri(seed: u64, procs: u64, cases_per_proc: u64, miri_seeds: &[u64]) -> Outcome {
    // build once (serially) so that the parallel runs do not all wait on the build lock
    let warm = run_one(seed, 0, 1, miri_seeds[0], false);
    let mut o = Outcome::default();
    if let Err((_, sig, msg)) = &warm {
        if sig == "infra" {
            o.harness_bug = Some(msg.clone());
            return o;
        }
    }
    let mut jobs = Vec::new();
    for (mi, ms) in miri_seeds.iter().enumerate() {
        for p in 0..procs {
            jobs.push((seed.wrapping_add(mi as u64 * 7919), p * cases_per_proc, cases_per_proc, *ms, false));
            if p % 2 == 0 {
                jobs.push((seed.wrapping_add(mi as u64 * 7919 + 13), p * cases_per_proc, cases_per_proc, *ms, true));
            }
        }
    }
    let threads = std::thread::available_parallelism().map(|n| n.get()).unwrap_or(4).min(16);
    let mut o = run_parallel(jobs, threads, |(cs, first, n, ms, sb)| {
        let mut o = Outcome::default();
        match run_one(cs, first, n, ms, sb) {
            Ok((cases, nt)) => {
                o.evaluations = cases;
                o.counted_nontrivial = nt;
                *o.classes.entry(if sb { "miri_cases_stacked_borrows_get_mut_subset".to_string() } else { "miri_cases".to_string() }).or_insert(0) += cases;
            }
            Err((k, sig, msg)) => {
                if sig == "infra" {
                    o.harness_bug = Some(msg);
                } else {
                    let mc = MiriCase {
                        miri: true,
                        case_seed: cs,
                        k: k.unwrap_or(first),
                        miri_seed: ms,
                        sb,
                    };
                    let replay = write_replay("C14", &format!("C14-miri-{cs}-{}", mc.k), ms, &mc, "C14", &sig, &msg);
                    o.violation = Some(Violation {
                        prop: "C14".into(),
                        sig,
                        msg,
                        replay,
                    });
                }
            }
        }
        o
    });
    o.extra.insert(
        "miri".into(),
        serde_json::json!({"flags": "all operations: -Zmiri-disable-stacked-borrows -Zmiri-disable-isolation; get_mut-only subset of operations: Stacked Borrows enabled", "miri_seeds": miri_seeds, "processes": procs * miri_seeds.len() as u64, "cases_per_process": cases_per_proc}),
    );
    o
}

pub fn replay_miri(path: &str) -> Outcome {
    let (_rf, mc): (ReplayFile, MiriCase) = read_replay(path);
    let mut o = Outcome::default();
    o.is_replay = true;
    o.evaluations = 1;
    match run_one(mc.case_seed, mc.k, 1, mc.miri_seed, mc.sb) {
        Ok(_) => {}
        Err((_, sig, msg)) => {
            if sig == "infra" {
                o.harness_bug = Some(msg);
            } else {
                o.violation = Some(Violation {
                    prop: "C14".into(),
                    sig,
                    msg,
                    replay: path.to_string(),
                });
            }
        }
    }
    o
}
