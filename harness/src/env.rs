//! Shared run-time context: focus, failures, per-case events, value types, query sets.

use crate::model::{Key, Model, Raw};
use crate::ops::splitmix;
use crate::tp::{len_mask, width_mask, TP};
use prefix_trie::PrefixMap;
use std::collections::{BTreeMap, BTreeSet};
use std::fmt::Debug;

/// Value types stored in the maps. The model only ever stores the `u64` id.
pub trait Val: Clone + PartialEq + Debug + Default + Send + Sync + 'static {
    fn mk(id: u64) -> Self;
    fn id(&self) -> u64;
}
impl Val for u64 {
    fn mk(id: u64) -> Self {
        id
    }
    fn id(&self) -> u64 {
        *self
    }
}
/// A second, non-Copy value type (right operand of set operations).
#[derive(Clone, PartialEq, Eq, Debug, Default, Hash)]
pub struct SV(pub String);
impl Val for SV {
    fn mk(id: u64) -> Self {
        SV(format!("v{id}"))
    }
    fn id(&self) -> u64 {
        self.0.trim_start_matches('v').parse().unwrap_or(0)
    }
}

/// A failed oracle. `prop` is the property the oracle belongs to, `sig` a stable signature of the
/// root cause class (used by the known-findings protocol), `msg` the human readable detail.
#[derive(Clone, Debug)]
pub struct Fail {
    pub prop: &'static str,
    pub sig: String,
    pub msg: String,
}

pub type R<T = ()> = Result<T, Fail>;

pub fn fail<T>(prop: &'static str, sig: &str, msg: String) -> R<T> {
    Err(Fail {
        prop,
        sig: sig.to_string(),
        msg,
    })
}

#[macro_export]
macro_rules! ensure {
    ($cond:expr, $prop:expr, $sig:expr, $($fmt:tt)*) => {
        if !($cond) {
            return Err($crate::env::Fail { prop: $prop, sig: $sig.to_string(), msg: format!($($fmt)*) });
        }
    };
}

#[derive(Clone, Copy, Debug, Default, PartialEq, Eq)]
pub struct Focus(pub u32);
impl Focus {
    pub fn of(ids: &[u32]) -> Focus {
        let mut f = 0;
        for i in ids {
            f |= 1 << i;
        }
        Focus(f)
    }
    pub fn all() -> Focus {
        Focus(!0)
    }
    #[inline]
    pub fn has(&self, n: u32) -> bool {
        self.0 & (1 << n) != 0
    }
}

/// Per-case context.
pub struct Env {
    pub focus: Focus,
    /// strict = replay mode: known findings are not tolerated
    pub strict: bool,
    /// signatures of findings listed as `known` (tolerated, reported once)
    pub known: BTreeSet<String>,
    /// known-finding signatures hit in this case
    pub known_hits: BTreeSet<String>,
    /// per-case event counters (generator distribution, non-triviality rules)
    pub ev: BTreeMap<&'static str, u64>,
    pub uni: Vec<Raw>,
    pub next_val: u64,
    pub step: usize,
    /// query all 511 prefixes of the 8-bit type on every step
    pub full_queries: bool,
    /// stop the history at the first step that trips a known finding with downstream panics
    pub stop_on_taint: bool,
    pub stopped_on_taint: bool,
    /// name of the crate operation currently being executed (for panic attribution)
    pub cur_op: &'static str,
    /// extra fingerprint material
    pub trace: Vec<String>,
    pub want_trace: bool,
}

impl Env {
    pub fn new(focus: Focus, uni: Vec<Raw>) -> Env {
        Env {
            focus,
            strict: false,
            known: BTreeSet::new(),
            known_hits: BTreeSet::new(),
            ev: BTreeMap::new(),
            uni,
            next_val: 1000,
            step: 0,
            full_queries: false,
            stop_on_taint: false,
            stopped_on_taint: false,
            cur_op: "",
            trace: Vec::new(),
            want_trace: false,
        }
    }
    #[inline]
    pub fn ev(&mut self, name: &'static str) {
        *self.ev.entry(name).or_insert(0) += 1;
    }
    pub fn evn(&mut self, name: &'static str, n: u64) {
        *self.ev.entry(name).or_insert(0) += n;
    }
    pub fn has_ev(&self, name: &str) -> bool {
        self.ev.get(name).copied().unwrap_or(0) > 0
    }
    pub fn cnt(&self, name: &str) -> u64 {
        self.ev.get(name).copied().unwrap_or(0)
    }
    pub fn fresh(&mut self) -> u64 {
        self.next_val += 1;
        self.next_val
    }
    /// is `sig` a listed known finding that we tolerate in this run?
    pub fn tolerate(&mut self, sig: &str) -> bool {
        if !self.strict && self.known.contains(sig) {
            self.known_hits.insert(sig.to_string());
            true
        } else {
            false
        }
    }
    pub fn tr(&mut self, s: impl FnOnce() -> String) {
        if self.want_trace {
            let s = s();
            self.trace.push(s);
        }
    }
}

/// One map under test together with its model and bookkeeping.
pub struct Side<P: TP, V: Val> {
    pub map: PrefixMap<P, V>,
    pub model: Model,
    /// only insert-class ops, remove, retain, clear were used since the last fresh build
    pub canonical: bool,
    /// expected `len() - number of entries` caused by tolerated known findings
    pub drift: i64,
    /// largest number of reachable arena slots seen so far (C16)
    pub peak_nodes: usize,
    pub name: &'static str,
}

impl<P: TP, V: Val> Side<P, V> {
    pub fn new(name: &'static str) -> Self {
        Side {
            map: PrefixMap::new(),
            model: Model::new(),
            canonical: true,
            drift: 0,
            peak_nodes: 1,
            name,
        }
    }
}

/// Apply host-bit noise derived from `salt` to a key, for width `w`.
pub fn noisy(k: Key, salt: u64, w: u8) -> Raw {
    let h = splitmix(salt);
    let nb: u128 = match h % 4 {
        0 => 0,
        1 => !0,
        _ => ((splitmix(h) as u128) << 64) | splitmix(h ^ 77) as u128,
    };
    let m = len_mask(k.len);
    Raw {
        bits: ((k.net & m) | (nb & !m)) & width_mask(w),
        len: k.len,
    }
}

/// The per-step query set (see DESIGN §3.4).
pub fn query_set<P: TP>(uni: &[Raw], model: &[&Model], full: bool, salt: u64) -> Vec<Raw> {
    let w = P::W;
    let mut keys: BTreeSet<Key> = BTreeSet::new();
    if w == 8 && full {
        for len in 0..=8u8 {
            let n = 1u32 << len;
            for i in 0..n {
                let bits = if len == 0 { 0 } else { (i as u128) << (128 - len as u32) };
                keys.insert(Key::new(bits, len));
            }
        }
    } else {
        let mut base: BTreeSet<Key> = uni.iter().map(|r| r.key()).collect();
        for m in model {
            if m.m.len() <= 96 {
                base.extend(m.m.keys().copied());
            } else {
                // large models: a salt-dependent sample of ~96 stored keys
                let stride = m.m.len() / 96 + 1;
                base.extend(m.m.keys().copied().skip((salt as usize) % stride).step_by(stride));
            }
        }
        keys.insert(Key::ROOT);
        for k in base {
            keys.insert(k);
            if k.len > 0 {
                keys.insert(Key::new(k.net, k.len - 1));
                // sibling
                keys.insert(Key::new(k.net ^ (1u128 << (128 - k.len as u32)), k.len));
            }
            if k.len < w {
                keys.insert(Key::new(k.net, k.len + 1));
                keys.insert(Key::new(k.net | (1u128 << (127 - k.len as u32)), k.len + 1));
                keys.insert(Key::new(k.net, w));
                keys.insert(Key::new((k.net | !len_mask(k.len)) & width_mask(w), w));
            }
            if k.len > 2 {
                keys.insert(Key::new(k.net, k.len / 2));
            }
        }
    }
    keys.into_iter()
        .enumerate()
        .map(|(i, k)| noisy(k, salt.wrapping_mul(1000003).wrapping_add(i as u64), w))
        .collect()
}
