//! proptest strategies for universes, operations and histories. Every random choice of a case is
//! made here (or in the enumerators); the interpreter is deterministic.

use crate::ops::*;
use proptest::collection::vec;
use proptest::prelude::*;

#[derive(Clone, Debug)]
pub struct Weights {
    pub insert: u32,
    pub remove: u32,
    pub keep_tree: u32,
    pub remove_children: u32,
    pub retain: u32,
    pub clear: u32,
    pub entry: u32,
    pub entry_match: u32,
    pub get_mut: u32,
    pub lpm_mut: u32,
    pub iter_mut: u32,
    pub children_mut: u32,
    pub view_nav: u32,
    pub view_set: u32,
    pub view_remove: u32,
    pub view_write: u32,
    pub view_iter: u32,
    pub setop: u32,
    pub clone_swap: u32,
    pub collect: u32,
    pub from_iter: u32,
    /// percentage of single-map operations that go to map B
    pub b_share: u32,
}

impl Weights {
    /// the complete alphabet, insert-heavy enough to keep maps populated
    pub fn full() -> Weights {
        Weights {
            insert: 30,
            remove: 10,
            keep_tree: 6,
            remove_children: 3,
            retain: 3,
            clear: 1,
            entry: 12,
            entry_match: 8,
            get_mut: 2,
            lpm_mut: 2,
            iter_mut: 2,
            children_mut: 2,
            view_nav: 1,
            view_set: 4,
            view_remove: 4,
            view_write: 3,
            view_iter: 3,
            setop: 5,
            clone_swap: 1,
            collect: 1,
            from_iter: 1,
            b_share: 30,
        }
    }
    /// only operations of the canonical sub-alphabet (insert-class, remove, retain, clear, value-only)
    pub fn canonical() -> Weights {
        Weights {
            insert: 30,
            remove: 16,
            keep_tree: 0,
            remove_children: 0,
            retain: 5,
            clear: 1,
            entry: 12,
            entry_match: 0,
            get_mut: 2,
            lpm_mut: 1,
            iter_mut: 1,
            children_mut: 1,
            view_nav: 0,
            view_set: 0,
            view_remove: 0,
            view_write: 2,
            view_iter: 1,
            setop: 0,
            clone_swap: 1,
            collect: 1,
            from_iter: 1,
            b_share: 0,
        }
    }
    /// shapes with many value-less leftovers
    pub fn leftovers() -> Weights {
        let mut w = Weights::full();
        w.keep_tree = 14;
        w.view_remove = 8;
        w.remove_children = 6;
        w.insert = 34;
        w.remove = 6;
        w.setop = 0;
        w.clear = 0;
        w.b_share = 0;
        w
    }
}

pub fn pref() -> impl Strategy<Value = PRef> {
    (
        any::<u16>(),
        prop_oneof![3 => Just(0u8), 1 => Just(1u8), 3 => any::<u8>()],
    )
        .prop_map(|(i, noise)| PRef { i, noise })
}

pub fn ustep() -> impl Strategy<Value = UStep> {
    // parent 0xFFFF maps to the previously derived member, so a third of the steps continue a chain
    // (nested prefixes, deep tries); the rest branch off a random earlier member
    (0u8..12, prop_oneof![2 => any::<u16>(), 1 => Just(0xFFFFu16)], any::<u8>(), any::<u128>()).prop_map(|(kind, parent, a, bits)| UStep {
        kind,
        parent,
        a,
        bits,
    })
}

pub fn usteps(min: usize, max: usize) -> impl Strategy<Value = Vec<UStep>> {
    vec(ustep(), min..=max)
}

pub fn pred() -> impl Strategy<Value = Pred> {
    prop_oneof![
        4 => any::<u8>().prop_map(Pred::HashBit),
        2 => any::<u8>().prop_map(Pred::LenLe),
        2 => pref().prop_map(Pred::CoveredBy),
        2 => pref().prop_map(Pred::NotCoveredBy),
        1 => Just(Pred::All),
        1 => Just(Pred::Nothing),
    ]
}

pub fn occ_act() -> impl Strategy<Value = OccAct> {
    prop_oneof![
        2 => Just(OccAct::Get),
        2 => Just(OccAct::GetMutWrite),
        2 => Just(OccAct::Key),
        2 => Just(OccAct::Insert),
        3 => Just(OccAct::Remove),
    ]
}

pub fn entry_act(match_w: u32) -> impl Strategy<Value = EntryAct> {
    prop_oneof![
        4 => Just(EntryAct::Insert),
        3 => any::<bool>().prop_map(|write| EntryAct::OrInsert { write }),
        2 => any::<bool>().prop_map(|write| EntryAct::OrInsertWith { write }),
        2 => any::<bool>().prop_map(|write| EntryAct::OrDefault { write }),
        2 => Just(EntryAct::AndModifyOrInsert),
        1 => Just(EntryAct::AndModifyGet),
        1 => Just(EntryAct::Get),
        1 => Just(EntryAct::GetMutWrite),
        1 => Just(EntryAct::Key),
        match_w => (
            prop_oneof![Just(VacAct::Insert), Just(VacAct::InsertWith), Just(VacAct::Default), Just(VacAct::Key)],
            vec(occ_act(), 1..=4)
        )
            .prop_map(|(vac, occ)| EntryAct::Match { vac, occ }),
    ]
}

pub fn nav_step() -> impl Strategy<Value = Nav> {
    prop_oneof![
        3 => pref().prop_map(Nav::At),
        3 => (pref(), any::<u8>()).prop_map(|(p, k)| Nav::AtCut(p, k)),
        3 => pref().prop_map(Nav::Find),
        1 => pref().prop_map(Nav::FindExact),
        1 => pref().prop_map(Nav::FindLpm),
        2 => Just(Nav::Left),
        2 => Just(Nav::Right),
        2 => Just(Nav::SplitLeft),
        2 => Just(Nav::SplitRight),
    ]
}

pub fn nav_prog(max: usize) -> impl Strategy<Value = Vec<Nav>> {
    vec(nav_step(), 0..=max)
}

fn m_strategy(b_share: u32) -> BoxedStrategy<M> {
    if b_share == 0 {
        Just(M::A).boxed()
    } else {
        prop_oneof![(100 - b_share) => Just(M::A), b_share => Just(M::B)].boxed()
    }
}

pub fn op(w: &Weights) -> BoxedStrategy<Op> {
    let m = || m_strategy(w.b_share);
    let mut alts: Vec<(u32, BoxedStrategy<Op>)> = Vec::new();
    let mut add = |wt: u32, s: BoxedStrategy<Op>| {
        if wt > 0 {
            alts.push((wt, s));
        }
    };
    add(w.insert, (m(), pref()).prop_map(|(m, p)| Op::Insert { m, p }).boxed());
    add(w.remove, (m(), pref()).prop_map(|(m, p)| Op::Remove { m, p }).boxed());
    add(w.keep_tree, (m(), pref()).prop_map(|(m, p)| Op::RemoveKeepTree { m, p }).boxed());
    add(w.remove_children, (m(), pref()).prop_map(|(m, p)| Op::RemoveChildren { m, p }).boxed());
    add(w.retain, (m(), pred()).prop_map(|(m, pred)| Op::Retain { m, pred }).boxed());
    add(w.clear, m().prop_map(|m| Op::Clear { m }).boxed());
    add(w.entry, (m(), pref(), entry_act(0)).prop_map(|(m, p, act)| Op::Entry { m, p, act }).boxed());
    add(
        w.entry_match,
        (m(), pref(), entry_act(1000)).prop_map(|(m, p, act)| Op::Entry { m, p, act }).boxed(),
    );
    add(w.get_mut, (m(), pref()).prop_map(|(m, p)| Op::GetMut { m, p }).boxed());
    add(w.lpm_mut, (m(), pref()).prop_map(|(m, p)| Op::GetLpmMut { m, p }).boxed());
    add(
        w.iter_mut,
        prop_oneof![
            (m(), any::<u64>()).prop_map(|(m, mask)| Op::IterMut { m, mask }),
            (m(), any::<u64>()).prop_map(|(m, mask)| Op::ValuesMut { m, mask }),
        ]
        .boxed(),
    );
    add(
        w.children_mut,
        (m(), pref(), any::<u64>()).prop_map(|(m, p, mask)| Op::ChildrenMut { m, p, mask }).boxed(),
    );
    let vm = |act: BoxedStrategy<ViewAct>, wt: u32, m: BoxedStrategy<M>| -> (u32, BoxedStrategy<Op>) {
        (wt, (m, nav_prog(3), act).prop_map(|(m, nav, act)| Op::ViewMut { m, nav, act }).boxed())
    };
    for (wt, act) in [
        (w.view_nav, Just(ViewAct::Nothing).boxed()),
        (w.view_set, Just(ViewAct::Set).boxed()),
        (w.view_remove, Just(ViewAct::Remove).boxed()),
        (
            w.view_write,
            prop_oneof![Just(ViewAct::ValueMut), Just(ViewAct::PrefixValueMut)].boxed(),
        ),
        (
            w.view_iter,
            prop_oneof![
                any::<u64>().prop_map(ViewAct::IterMut),
                any::<u64>().prop_map(ViewAct::ValuesMut),
                any::<u64>().prop_map(ViewAct::IntoIter),
            ]
            .boxed(),
        ),
    ] {
        if wt > 0 {
            alts.push(vm(act, wt, m()));
        }
    }
    if w.setop > 0 {
        alts.push((
            w.setop,
            (
                prop_oneof![
                    Just(SetKind::Union),
                    Just(SetKind::Intersection),
                    Just(SetKind::Difference),
                    Just(SetKind::CoveringDifference)
                ],
                prop_oneof![3 => Just(Operands::AB), 1 => Just(Operands::SplitA), 1 => Just(Operands::SplitB)],
                nav_prog(2),
                nav_prog(2),
                any::<u64>(),
            )
                .prop_map(|(kind, ops, nav_a, nav_b, mask)| Op::SetOpMut {
                    kind,
                    ops,
                    nav_a,
                    nav_b,
                    mask,
                })
                .boxed(),
        ));
    }
    if w.clone_swap > 0 {
        alts.push((w.clone_swap, m().prop_map(|m| Op::CloneSwap { m }).boxed()));
    }
    if w.collect > 0 {
        alts.push((w.collect, m().prop_map(|m| Op::Collect { m }).boxed()));
    }
    if w.from_iter > 0 {
        alts.push((
            w.from_iter,
            (m(), vec(pref(), 0..=8)).prop_map(|(m, items)| Op::FromIter { m, items }).boxed(),
        ));
    }
    proptest::strategy::Union::new_weighted(alts).boxed()
}

pub fn history(w: &Weights, max_ops: usize) -> BoxedStrategy<Vec<Op>> {
    vec(op(w), 0..=max_ops).boxed()
}

pub fn history_min(w: &Weights, min_ops: usize, max_ops: usize) -> BoxedStrategy<Vec<Op>> {
    vec(op(w), min_ops..=max_ops).boxed()
}

/// A case whose history has at least `min_ops` operations (for checks that need populated maps).
pub fn case_min(ptype: &'static str, w: &Weights, min_uni: usize, max_uni: usize, min_ops: usize, max_ops: usize) -> BoxedStrategy<Case> {
    (usteps(min_uni, max_uni), history_min(w, min_ops, max_ops))
        .prop_map(move |(usteps, ops)| Case {
            ptype: ptype.to_string(),
            usteps,
            ops,
            extra: vec![],
        })
        .boxed()
}

/// A case that starts with bulk insertions (hundreds of prefixes below a universe member) and / or
/// complete chains of nested prefixes (every length 0..=W), followed by operations that target them.
pub fn scale_case(ptype: &'static str, w: &Weights, max_ops: usize) -> BoxedStrategy<Case> {
    let m = || prop_oneof![3 => Just(M::A), 1 => Just(M::B)];
    let bulk = prop_oneof![
        2 => (pref(), 120u16..=420, any::<u64>(), m()).prop_map(|(under, n, seed, m)| Op::BulkInsert { m, under, n, seed }),
        1 => (pref(), any::<u64>(), m()).prop_map(|(along, seed, m)| Op::ChainInsert { m, along, seed }),
    ];
    (usteps(3, 10), vec(bulk, 1..=3), history(w, max_ops), any::<u64>())
        .prop_map(move |(usteps, bulks, ops, salt)| {
            // targeted follow-ups: bulk removal at (and above) the bulk roots, then the generic operations
            let mut all = bulks.clone();
            let mut s = salt;
            for b in &bulks {
                s = splitmix(s);
                match b {
                    Op::BulkInsert { m, under, .. } => match s % 4 {
                        0 => all.push(Op::RemoveChildren { m: *m, p: *under }),
                        1 => all.push(Op::Retain { m: *m, pred: Pred::NotCoveredBy(*under) }),
                        2 => all.push(Op::Retain { m: *m, pred: Pred::HashBit((s >> 8) as u8) }),
                        _ => {}
                    },
                    Op::ChainInsert { m, .. } => {
                        // the chain members sit at the end of the (extended) universe: high indices
                        for j in 0..3u16 {
                            s = splitmix(s);
                            let p = PRef { i: 0xFFFF - ((s % 400) as u16) * (j + 1), noise: 0 };
                            match s % 3 {
                                0 => all.push(Op::Remove { m: *m, p }),
                                1 => all.push(Op::ChildrenMut { m: *m, p, mask: s }),
                                _ => all.push(Op::RemoveKeepTree { m: *m, p }),
                            }
                        }
                        all.push(Op::Remove { m: *m, p: PRef { i: 0xFFFF, noise: 0 } });
                    }
                    _ => {}
                }
            }
            all.extend(ops);
            Case {
                ptype: ptype.to_string(),
                usteps,
                ops: all,
                extra: vec![],
            }
        })
        .boxed()
}

/// A full case for a fixed prefix type.
pub fn case(ptype: &'static str, w: &Weights, max_uni: usize, max_ops: usize, n_extra: usize) -> BoxedStrategy<Case> {
    (usteps(2, max_uni), history(w, max_ops), vec(any::<u64>(), n_extra..=n_extra))
        .prop_map(move |(usteps, ops, extra)| Case {
            ptype: ptype.to_string(),
            usteps,
            ops,
            extra,
        })
        .boxed()
}
