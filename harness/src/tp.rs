//! The 14 shipped prefix types behind one harness trait.
//!
//! `make`/`raw_bits`/`raw_len` go through the *foreign* constructors and accessors of each type
//! and never through `prefix_trie::Prefix`, so the oracles share no code with `src/prefix.rs`.
//! Bits are always handled left-aligned in a `u128` (bit 127 is the first address bit), which
//! makes keys of all widths comparable by the same integer code.

use prefix_trie::Prefix;
use std::fmt::Debug;
use std::net::{Ipv4Addr, Ipv6Addr};

pub trait TP: Prefix + Clone + Debug + PartialEq + Send + Sync + 'static {
    const NAME: &'static str;
    /// width of the address in bits
    const W: u8;
    /// does the type keep the host bits it was given?
    const KEEPS_HOST: bool;
    /// Build a prefix from left-aligned bits (host bits included) and a length `0..=W`.
    fn make(bits: u128, len: u8) -> Self;
    /// The address bits as stored (host bits included), left-aligned in 128 bits.
    fn raw_bits(&self) -> u128;
    fn raw_len(&self) -> u8;
}

#[inline]
pub fn width_mask(w: u8) -> u128 {
    if w == 128 {
        !0
    } else {
        !((!0u128) >> w)
    }
}

/// mask with the first `len` bits set (left-aligned in 128 bits)
#[inline]
pub fn len_mask(len: u8) -> u128 {
    if len == 0 {
        0
    } else if len >= 128 {
        !0
    } else {
        !((!0u128) >> len)
    }
}

macro_rules! tp_uint {
    ($t:ty, $w:expr, $name:expr) => {
        impl TP for ($t, u8) {
            const NAME: &'static str = $name;
            const W: u8 = $w;
            const KEEPS_HOST: bool = true;
            fn make(bits: u128, len: u8) -> Self {
                ((bits >> (128 - $w as u32)) as $t, len)
            }
            fn raw_bits(&self) -> u128 {
                (self.0 as u128) << (128 - $w as u32)
            }
            fn raw_len(&self) -> u8 {
                self.1
            }
        }
    };
}
tp_uint!(u8, 8, "u8");
tp_uint!(u16, 16, "u16");
tp_uint!(u32, 32, "u32");
tp_uint!(u64, 64, "u64");
tp_uint!(u128, 128, "u128");
tp_uint!(usize, 64, "usize");

fn v4(bits: u128) -> Ipv4Addr {
    Ipv4Addr::from((bits >> 96) as u32)
}
fn v6(bits: u128) -> Ipv6Addr {
    Ipv6Addr::from(bits)
}
fn b4(a: Ipv4Addr) -> u128 {
    (u32::from(a) as u128) << 96
}
fn b6(a: Ipv6Addr) -> u128 {
    u128::from(a)
}

impl TP for ipnet::Ipv4Net {
    const NAME: &'static str = "ipnet4";
    const W: u8 = 32;
    const KEEPS_HOST: bool = true;
    fn make(bits: u128, len: u8) -> Self {
        ipnet::Ipv4Net::new(v4(bits), len).unwrap()
    }
    fn raw_bits(&self) -> u128 {
        b4(self.addr())
    }
    fn raw_len(&self) -> u8 {
        ipnet::Ipv4Net::prefix_len(self)
    }
}
impl TP for ipnet::Ipv6Net {
    const NAME: &'static str = "ipnet6";
    const W: u8 = 128;
    const KEEPS_HOST: bool = true;
    fn make(bits: u128, len: u8) -> Self {
        ipnet::Ipv6Net::new(v6(bits), len).unwrap()
    }
    fn raw_bits(&self) -> u128 {
        b6(self.addr())
    }
    fn raw_len(&self) -> u8 {
        ipnet::Ipv6Net::prefix_len(self)
    }
}
impl TP for ipnetwork::Ipv4Network {
    const NAME: &'static str = "ipnetwork4";
    const W: u8 = 32;
    const KEEPS_HOST: bool = true;
    fn make(bits: u128, len: u8) -> Self {
        ipnetwork::Ipv4Network::new(v4(bits), len).unwrap()
    }
    fn raw_bits(&self) -> u128 {
        b4(self.ip())
    }
    fn raw_len(&self) -> u8 {
        self.prefix()
    }
}
impl TP for ipnetwork::Ipv6Network {
    const NAME: &'static str = "ipnetwork6";
    const W: u8 = 128;
    const KEEPS_HOST: bool = true;
    fn make(bits: u128, len: u8) -> Self {
        ipnetwork::Ipv6Network::new(v6(bits), len).unwrap()
    }
    fn raw_bits(&self) -> u128 {
        b6(self.ip())
    }
    fn raw_len(&self) -> u8 {
        self.prefix()
    }
}
impl TP for cidr::Ipv4Cidr {
    const NAME: &'static str = "cidr4";
    const W: u8 = 32;
    const KEEPS_HOST: bool = false;
    fn make(bits: u128, len: u8) -> Self {
        cidr::Ipv4Cidr::new(v4(bits & len_mask(len)), len).unwrap()
    }
    fn raw_bits(&self) -> u128 {
        b4(self.first_address())
    }
    fn raw_len(&self) -> u8 {
        self.network_length()
    }
}
impl TP for cidr::Ipv6Cidr {
    const NAME: &'static str = "cidr6";
    const W: u8 = 128;
    const KEEPS_HOST: bool = false;
    fn make(bits: u128, len: u8) -> Self {
        cidr::Ipv6Cidr::new(v6(bits & len_mask(len)), len).unwrap()
    }
    fn raw_bits(&self) -> u128 {
        b6(self.first_address())
    }
    fn raw_len(&self) -> u8 {
        self.network_length()
    }
}
impl TP for cidr::Ipv4Inet {
    const NAME: &'static str = "inet4";
    const W: u8 = 32;
    const KEEPS_HOST: bool = true;
    fn make(bits: u128, len: u8) -> Self {
        cidr::Ipv4Inet::new(v4(bits), len).unwrap()
    }
    fn raw_bits(&self) -> u128 {
        b4(self.address())
    }
    fn raw_len(&self) -> u8 {
        self.network_length()
    }
}
impl TP for cidr::Ipv6Inet {
    const NAME: &'static str = "inet6";
    const W: u8 = 128;
    const KEEPS_HOST: bool = true;
    fn make(bits: u128, len: u8) -> Self {
        cidr::Ipv6Inet::new(v6(bits), len).unwrap()
    }
    fn raw_bits(&self) -> u128 {
        b6(self.address())
    }
    fn raw_len(&self) -> u8 {
        self.network_length()
    }
}

pub const ALL_TYPES: [&str; 14] = [
    "u8", "u16", "u32", "u64", "u128", "usize", "ipnet4", "ipnet6", "ipnetwork4", "ipnetwork6",
    "cidr4", "cidr6", "inet4", "inet6",
];

/// The prefix types compiled into the fuzz targets (cargo feature `few-types`): an instrumented
/// build of all 14 monomorphisations takes 11 minutes, these five take about four.
pub const FUZZ_TYPES: [&str; 5] = ["u8", "u32", "u128", "ipnet4", "inet6"];

/// Reduced dispatch for the fuzz build.
#[cfg(feature = "few-types")]
#[macro_export]
macro_rules! dispatch_tp {
    ($name:expr, $f:ident $(, $a:expr)*) => {
        match $name {
            "u8" => $f::<(u8, u8)>($($a),*),
            "u32" => $f::<(u32, u8)>($($a),*),
            "u128" => $f::<(u128, u8)>($($a),*),
            "ipnet4" => $f::<ipnet::Ipv4Net>($($a),*),
            "inet6" => $f::<cidr::Ipv6Inet>($($a),*),
            other => panic!("prefix type {other} is not compiled into this (few-types) build"),
        }
    };
}

/// Call `$f::<P>($($a),*)` for the type named `$name` (runtime dispatch over the 14 types).
#[cfg(not(feature = "few-types"))]
#[macro_export]
macro_rules! dispatch_tp {
    ($name:expr, $f:ident $(, $a:expr)*) => {
        match $name {
            "u8" => $f::<(u8, u8)>($($a),*),
            "u16" => $f::<(u16, u8)>($($a),*),
            "u32" => $f::<(u32, u8)>($($a),*),
            "u64" => $f::<(u64, u8)>($($a),*),
            "u128" => $f::<(u128, u8)>($($a),*),
            "usize" => $f::<(usize, u8)>($($a),*),
            "ipnet4" => $f::<ipnet::Ipv4Net>($($a),*),
            "ipnet6" => $f::<ipnet::Ipv6Net>($($a),*),
            "ipnetwork4" => $f::<ipnetwork::Ipv4Network>($($a),*),
            "ipnetwork6" => $f::<ipnetwork::Ipv6Network>($($a),*),
            "cidr4" => $f::<cidr::Ipv4Cidr>($($a),*),
            "cidr6" => $f::<cidr::Ipv6Cidr>($($a),*),
            "inet4" => $f::<cidr::Ipv4Inet>($($a),*),
            "inet6" => $f::<cidr::Ipv6Inet>($($a),*),
            other => panic!("unknown prefix type {other}"),
        }
    };
}
