//! C19: equality, clone independence, collect and serde round-trips.

use crate::engine::*;
use crate::ensure;
use crate::env::{Env, Focus, Side, R, SV};
use crate::gen::{self, Weights};
use crate::hist::panic_to_fail;
use crate::interp::{apply_single, run_history, World};
use crate::model::{key_of, mk, raw_of, Key, Model, Raw};
use crate::observe::check_contents;
use crate::ops::*;
use crate::tp::{len_mask, width_mask, TP};
use prefix_trie::{PrefixMap, PrefixSet};
use proptest::prelude::*;
use serde::{Deserialize, Serialize};
use std::collections::BTreeSet;
use std::panic::{catch_unwind, AssertUnwindSafe};

#[derive(Clone, Debug, PartialEq, Eq, Serialize, Deserialize)]
pub struct C19Case {
    pub case: Case,
    /// how the second operand is derived from the first
    pub variant: u8,
    pub k: u16,
    pub perm_seed: u64,
    /// operations applied to one of (original, clone) after cloning
    pub suffix: Vec<Op>,
    /// an independent history for the third operand / independent pairs
    pub other: Vec<Op>,
}

pub fn c19_case(ptype: &'static str) -> BoxedStrategy<C19Case> {
    let mut w = Weights::full();
    w.b_share = 0;
    w.setop = 0;
    w.keep_tree = 10;
    w.insert = 40;
    let mut w2 = w.clone();
    w2.clear = 0;
    (
        gen::case(ptype, &w, 10, 24, 0),
        0u8..10,
        any::<u16>(),
        any::<u64>(),
        gen::history(&w2, 8),
        gen::history(&w2, 12),
    )
        .prop_map(|(case, variant, k, perm_seed, suffix, other)| C19Case {
            case,
            variant,
            k,
            perm_seed,
            suffix,
            other,
        })
        .boxed()
}

fn entries<P: TP>(m: &PrefixMap<P, u64>) -> Vec<(P, u64)> {
    m.iter().take(100_000).map(|(p, v)| (p.clone(), *v)).collect()
}

fn shuffle<T>(v: &mut Vec<T>, seed: u64) {
    let mut s = seed;
    for i in (1..v.len()).rev() {
        s = splitmix(s);
        let j = (s % (i as u64 + 1)) as usize;
        v.swap(i, j);
    }
}

fn build<P: TP>(e: &[(P, u64)]) -> PrefixMap<P, u64> {
    let mut m = PrefixMap::new();
    for (p, v) in e {
        m.insert(p.clone(), *v);
    }
    m
}

/// the oracle: equal iff the (stored prefix, value) sequences are equal under the types' own equality
fn expect_eq<P: TP>(a: &PrefixMap<P, u64>, b: &PrefixMap<P, u64>) -> bool {
    entries(a) == entries(b)
}

fn check_eq_pair<P: TP>(env: &mut Env, what: &'static str, a: &PrefixMap<P, u64>, b: &PrefixMap<P, u64>) -> R {
    let want = expect_eq(a, b);
    env.cur_op = "eq";
    let got = a == b;
    let got_rev = b == a;
    let ne = a != b;
    let (na, nb) = (entries(a).len(), entries(b).len());
    let sig_class = if want {
        "equal-contents-reported-different"
    } else if na != nb && (entries(a).starts_with(&entries(b)) || entries(b).starts_with(&entries(a))) {
        "strict-prefix-reported-equal"
    } else {
        "different-contents-reported-equal"
    };
    ensure!(got == want, "C19", format!("C19:eq:{sig_class}"), "{what}: a == b is {got} but the entry sequences are {} (a has {na} entries, b has {nb}): a = {:?}, b = {:?}", if want { "equal" } else { "different" }, entries(a).iter().map(|(p, v)| (key_of(p), *v)).collect::<Vec<_>>(), entries(b).iter().map(|(p, v)| (key_of(p), *v)).collect::<Vec<_>>());
    ensure!(got_rev == got, "C19", "C19:eq:asymmetric", "{what}: a == b is {got} but b == a is {got_rev}");
    ensure!(ne == !got, "C19", "C19:ne", "{what}: a != b is {ne} while a == b is {got}");
    // sets over the same keys
    let sa: PrefixSet<P> = a.keys().cloned().collect();
    let sb: PrefixSet<P> = b.keys().cloned().collect();
    let ka: Vec<P> = sa.iter().cloned().collect();
    let kb: Vec<P> = sb.iter().cloned().collect();
    let want_s = ka == kb;
    let got_s = sa == sb;
    ensure!(got_s == want_s, "C19", format!("C19:set-eq:{}", if want_s { "equal-contents-reported-different" } else if ka.len() != kb.len() { "strict-prefix-reported-equal" } else { "different-contents-reported-equal" }), "{what}: set a == set b is {got_s}, key sequences are {} ({} vs {} keys)", if want_s { "equal" } else { "different" }, ka.len(), kb.len());
    ensure!((sb == sa) == got_s && (sa != sb) == !got_s, "C19", "C19:set-eq:asymmetric", "{what}: set equality is not symmetric / != is not its negation");
    // the same set with value-less leftover nodes (other shape, same entries) behaves identically
    let mut sd = sa.clone();
    let mut debris = 0;
    for r in env.uni.clone() {
        let p: P = mk(r);
        if !sd.contains(&p) {
            sd.insert(p.clone());
            sd.remove_keep_tree(&p);
            debris += 1;
        }
    }
    if debris > 0 {
        ensure!(sd == sa && sa == sd, "C19", "C19:set-eq:equal-contents-reported-different", "{what}: a set with {debris} value-less leftover nodes is not equal to the set with the same {} prefixes", ka.len());
        ensure!((sd == sb) == want_s && (sb == sd) == want_s, "C19", "C19:set-eq:shape-dependent", "{what}: equality of a set with leftover nodes against another set is {} but the key sequences are {}", sd == sb, if want_s { "equal" } else { "different" });
        let rebuilt: PrefixSet<P> = sd.iter().cloned().collect();
        ensure!(rebuilt == sd && sd == rebuilt, "C19", "C19:set-collect:not-equal", "{what}: a set with leftover nodes is not equal to the set rebuilt from its own prefixes");
        env.ev("set_same_entries_different_shape");
    }
    env.ev(if want { "pair_equal" } else { "pair_different" });
    Ok(())
}

pub fn run_c19<P: TP>(c: &C19Case, env: &mut Env) -> R {
    // X: built by the history
    let mut w: World<P, u64, SV> = World::new();
    env.focus = Focus(0);
    if let Err(f) = run_history(&mut w, &c.case.ops, env) {
        return Err(crate::env::Fail {
            prop: "BUILD",
            sig: format!("BUILD:{}", f.sig),
            msg: f.msg,
        });
    }
    env.focus = Focus::of(&[19]);
    let x = &w.a.map;
    let ex = entries(x);
    let n = ex.len();
    // reflexive
    ensure!(x == x, "C19", "C19:eq:not-reflexive", "a map is not equal to itself");
    // Y by variant
    let mut ey = ex.clone();
    let mut y: PrefixMap<P, u64>;
    let variant: &'static str = match c.variant {
        0 => {
            shuffle(&mut ey, c.perm_seed);
            y = build(&ey);
            "same entries, permuted insertion order (fresh canonical shape)"
        }
        1 => {
            // same entries plus leftover debris
            y = x.clone();
            let extra: Vec<Raw> = env.uni.clone();
            let mut added = 0;
            for r in extra {
                let p: P = mk(r);
                if !y.contains_key(&p) {
                    y.insert(p.clone(), 7);
                    y.remove_keep_tree(&p);
                    added += 1;
                }
            }
            if added > 0 {
                env.ev("same_entries_different_shape");
            }
            "same entries, extra insert + remove_keep_tree leftovers"
        }
        2 => {
            let k = if n == 0 { 0 } else { map_idx(c.k, n) };
            ey.truncate(k);
            y = build(&ey);
            if k < n {
                env.ev("strict_prefix");
            }
            "strict prefix of the entry sequence"
        }
        3 => {
            let k = if n == 0 { 0 } else { map_idx(c.k, n) };
            ey = ey.split_off(k.min(n));
            y = build(&ey);
            if k > 0 {
                env.ev("strict_suffix");
            }
            "suffix of the entry sequence"
        }
        4 => {
            let mut s = c.perm_seed;
            ey.retain(|_| {
                s = splitmix(s);
                s & 1 == 1
            });
            y = build(&ey);
            "sub-sequence"
        }
        5 => {
            y = PrefixMap::new();
            if n > 0 {
                env.ev("empty_vs_nonempty");
            }
            "empty map"
        }
        6 => {
            if n > 0 {
                let k = map_idx(c.k, n);
                ey[k].1 ^= 1;
                env.ev("one_value_differs");
            }
            y = build(&ey);
            "one value differs"
        }
        7 => {
            if n > 0 && P::KEEPS_HOST {
                let k = map_idx(c.k, n);
                let r = raw_of(&ey[k].0);
                if r.len < P::W {
                    let flipped = r.bits ^ (!len_mask(r.len) & width_mask(P::W) & (1u128 << (128 - P::W as u32)));
                    let p2: P = P::make(flipped, r.len);
                    if p2 != ey[k].0 {
                        ey[k].0 = p2;
                        env.ev("repr_differs_in_host_bits");
                    }
                }
            }
            y = build(&ey);
            "stored representation differs in host bits only"
        }
        8 => {
            // independent second history
            let mut w2: World<P, u64, SV> = World::new();
            env.focus = Focus(0);
            let _ = run_history(&mut w2, &c.other, env);
            env.focus = Focus::of(&[19]);
            y = w2.a.map.clone();
            "independent history"
        }
        _ => {
            y = x.clone();
            "clone"
        }
    };
    if c.variant == 0 && w.a.model.m.len() >= 2 && !w.a.canonical {
        env.ev("same_entries_different_shape");
    }
    check_eq_pair(env, variant, x, &y)?;
    // transitivity on a triple: Z = fresh build of X's entries in yet another order
    let mut ez = ex.clone();
    shuffle(&mut ez, c.perm_seed ^ 0x55);
    let z = build(&ez);
    check_eq_pair(env, "fresh rebuild", x, &z)?;
    if (x == &y) && (&y == &z) {
        ensure!(x == &z, "C19", "C19:eq:not-transitive", "x == y and y == z but x != z");
    }
    if (&z == x) && (x == &y) {
        ensure!(&z == &y, "C19", "C19:eq:not-transitive", "z == x and x == y but z != y");
    }
    // collect of own entries
    env.cur_op = "collect";
    let col: PrefixMap<P, u64> = x.iter().map(|(p, v)| (p.clone(), *v)).collect();
    ensure!(entries(&col) == ex, "C19", "C19:collect:entries", "collect of a map's own entries holds different entries");
    ensure!(&col == x && x == &col, "C19", "C19:collect:not-equal", "collect of a map's own entries is not equal to the map");
    ensure!(col.len() == ex.len(), "C19", "C19:collect:len", "collect().len() = {} for {} entries", col.len(), ex.len());
    // clone: equal, then independent in both directions
    env.cur_op = "clone";
    let snapshot = w.a.model.clone();
    let mut cl: Side<P, u64> = Side::new("clone");
    cl.map = x.clone();
    cl.model = snapshot.clone();
    cl.canonical = w.a.canonical;
    cl.drift = w.a.drift;
    ensure!(&cl.map == x && x == &cl.map, "C19", "C19:clone:not-equal", "clone() is not equal to the original");
    ensure!(entries(&cl.map) == ex, "C19", "C19:clone:entries", "clone() holds different entries");
    let mut changed = false;
    for (i, op) in c.suffix.iter().enumerate() {
        if matches!(op, Op::SetOpMut { .. }) {
            continue;
        }
        env.step = 1000 + i;
        env.focus = Focus(0);
        let r = apply_single(&mut cl, op, env);
        env.focus = Focus::of(&[19]);
        if r.is_err() {
            break;
        }
        changed = true;
    }
    if changed {
        env.ev("clone_mutated");
    }
    // the original must be untouched
    check_contents(&w.a, env).map_err(|f| crate::env::Fail {
        prop: "C19",
        sig: "C19:clone:original-changed".into(),
        msg: format!("mutating the clone changed the original: {}", f.msg),
    })?;
    ensure!(entries(&w.a.map) == ex, "C19", "C19:clone:original-changed", "mutating the clone changed the original's stored prefixes");
    // now the other direction: mutate the original, a second clone must keep the snapshot
    let cl2 = w.a.map.clone();
    for (i, op) in c.suffix.iter().enumerate() {
        if matches!(op, Op::SetOpMut { .. }) {
            continue;
        }
        env.step = 2000 + i;
        env.focus = Focus(0);
        let r = apply_single(&mut w.a, op, env);
        env.focus = Focus::of(&[19]);
        if r.is_err() {
            break;
        }
    }
    ensure!(entries(&cl2) == ex, "C19", "C19:clone:clone-changed", "mutating the original changed its clone");
    // clone_from into a target with its own history (own arena and free list): afterwards the target
    // must behave exactly like a fresh clone, also under further operations
    {
        env.cur_op = "clone_from";
        let mut w3: World<P, u64, SV> = World::new();
        env.focus = Focus(0);
        let _ = run_history(&mut w3, &c.other, env);
        env.focus = Focus::of(&[19]);
        let mut tgt: Side<P, u64> = Side::new("clone_from target");
        tgt.map = std::mem::take(&mut w3.a.map);
        tgt.map.clone_from(&cl2);
        ensure!(entries(&tgt.map) == ex, "C19", "C19:clone_from:entries", "clone_from() yields a map with different entries");
        ensure!(tgt.map == cl2 && cl2 == tgt.map && tgt.map.len() == cl2.len(), "C19", "C19:clone_from:not-equal", "the target of clone_from() is not equal to the source");
        tgt.model = snapshot.clone();
        tgt.canonical = false;
        tgt.drift = w.a.drift.min(0).max(0);
        if cl2.len() as i64 - ex.len() as i64 == 0 {
            for (i, op) in c.suffix.iter().chain(c.other.iter().take(6)).enumerate() {
                if matches!(op, Op::SetOpMut { .. }) || op.side() == Some(M::B) {
                    continue;
                }
                env.step = 3000 + i;
                env.focus = Focus::of(&[4]);
                let r = apply_single(&mut tgt, op, env).and_then(|_| crate::observe::observe(&mut tgt, env, None));
                env.focus = Focus::of(&[19]);
                if let Err(f) = r {
                    if f.sig.starts_with("C04:len") && (matches!(op, Op::ViewMut { .. })) {
                        break;
                    }
                    // Only failures that say something about the *state* clone_from() produced (entries,
                    // count, shape, arena, iteration, termination) are attributed to C19. An oracle of an
                    // accessor that is wrong on every map (e.g. a C13 mut-twin mismatch) fails here as it
                    // would on the source: it stays a foreign failure and ends the case without an alarm.
                    if !crate::c20::STATE_PROPS.contains(&f.prop) {
                        return Err(f);
                    }
                    return Err(crate::env::Fail {
                        prop: "C19",
                        sig: format!("C19:clone_from:diverges:{}", f.sig),
                        msg: format!("a map filled by clone_from() misbehaves under further operations (a fresh clone does not): {}", f.msg),
                    });
                }
            }
            env.ev("clone_from_checked");
        }
    }
    // serde round trips
    serde_roundtrip::<P>(&cl2, env)?;
    env.cur_op = "";
    Ok(())
}

/// serde_json round-trips where the key type supports it (dispatched by type name).
fn serde_roundtrip<P: TP>(m: &PrefixMap<P, u64>, env: &mut Env) -> R {
    use std::any::Any;
    env.cur_op = "serde";
    macro_rules! set_rt {
        ($t:ty) => {
            if let Some(mm) = (m as &dyn Any).downcast_ref::<PrefixMap<$t, u64>>() {
                let s: PrefixSet<$t> = mm.keys().cloned().collect();
                let js = serde_json::to_string(&s).map_err(|e| crate::observe::as_fail("C19", "C19:serde:set-serialize", format!("serialize set: {e}")))?;
                let back: PrefixSet<$t> = serde_json::from_str(&js).map_err(|e| crate::observe::as_fail("C19", "C19:serde:set-deserialize", format!("deserialize set: {e} from {js}")))?;
                let ka: Vec<$t> = s.iter().cloned().collect();
                let kb: Vec<$t> = back.iter().cloned().collect();
                ensure!(ka == kb && back == s && back.len() == s.len(), "C19", "C19:serde:set-roundtrip", "set serde round trip: {:?} -> {js} -> {:?}", ka, kb);
                env.ev("serde_set_roundtrip");
            }
        };
    }
    macro_rules! map_rt {
        ($t:ty) => {
            if let Some(mm) = (m as &dyn Any).downcast_ref::<PrefixMap<$t, u64>>() {
                let js = serde_json::to_string(mm).map_err(|e| crate::observe::as_fail("C19", "C19:serde:map-serialize", format!("serialize map: {e}")))?;
                let back: PrefixMap<$t, u64> = serde_json::from_str(&js).map_err(|e| crate::observe::as_fail("C19", "C19:serde:map-deserialize", format!("deserialize map: {e} from {js}")))?;
                let ea: Vec<($t, u64)> = mm.iter().map(|(p, v)| (*p, *v)).collect();
                let eb: Vec<($t, u64)> = back.iter().map(|(p, v)| (*p, *v)).collect();
                ensure!(ea == eb && &back == mm && back.len() == ea.len(), "C19", "C19:serde:map-roundtrip", "map serde round trip: {:?} -> {js} -> {:?} (len {})", ea, eb, back.len());
                env.ev("serde_map_roundtrip");
            }
        };
    }
    set_rt!((u8, u8));
    set_rt!((u16, u8));
    set_rt!((u32, u8));
    set_rt!((u64, u8));
    set_rt!((usize, u8));
    set_rt!(ipnet::Ipv4Net);
    set_rt!(ipnet::Ipv6Net);
    set_rt!(ipnetwork::Ipv4Network);
    set_rt!(ipnetwork::Ipv6Network);
    map_rt!(ipnet::Ipv4Net);
    map_rt!(ipnet::Ipv6Net);
    map_rt!(ipnetwork::Ipv4Network);
    map_rt!(ipnetwork::Ipv6Network);
    Ok(())
}

pub fn exec_c19<P: TP>(c: &C19Case) -> CaseResult {
    let uni = build_universe(&c.case.usteps, P::W);
    let mut env = Env::new(Focus::of(&[19]), uni);
    env.known = known_sigs("*");
    let r = catch_unwind(AssertUnwindSafe(|| run_c19::<P>(c, &mut env)));
    let mut res = CaseResult::default();
    match r {
        Ok(Ok(())) => {}
        Ok(Err(f)) => res.fail = Some(f),
        Err(_) => match panic_to_fail(env.cur_op, env.step, true) {
            Ok(f) => res.fail = Some(f),
            Err(hb) => res.harness_bug = Some(hb),
        },
    }
    if let Some(f) = &res.fail {
        if f.sig == "C20:panic:count-underflow-after-view-write" {
            res.fail = None;
        }
    }
    res.nontrivial = env.has_ev("same_entries_different_shape") || env.has_ev("strict_prefix") || env.has_ev("strict_suffix") || env.has_ev("one_value_differs") || env.has_ev("repr_differs_in_host_bits") || env.has_ev("empty_vs_nonempty");
    res.ev = env.ev;
    res.sample = format!("variant={} k={} suffix={} ops; {}", c.variant, c.k, c.suffix.len(), crate::hist::render_case(&c.case, P::W));
    res
}

pub fn exec_c19_dyn(c: &C19Case) -> CaseResult {
    fn go<P: TP>(c: &C19Case) -> CaseResult {
        exec_c19::<P>(c)
    }
    crate::dispatch_tp!(c.case.ptype.as_str(), go, c)
}

pub fn run_c19_check(tier: &str, seed: u64) -> Outcome {
    let (cases, shards) = if tier == "thorough" { (6000u32, 16u32) } else { (1500, 6) };
    let threads = std::thread::available_parallelism().map(|n| n.get()).unwrap_or(4).min(16);
    let mut jobs = Vec::new();
    for t in crate::tp::ALL_TYPES {
        for sh in 0..shards {
            jobs.push((t, sh));
        }
    }
    let accept = Accept::one("C19");
    let known = known_sigs("*");
    run_parallel(jobs, threads, |(t, sh)| {
        let label = format!("C19-{t}-{sh}");
        let mut o = run_shard("C19", &label, c19_case(t), cases, seed.wrapping_mul(1_000_003).wrapping_add(sh as u64), &accept, &known, exec_c19_dyn);
        o.classes.insert(format!("type:{t}"), o.evaluations);
        o
    })
}

pub fn replay_c19(path: &str) -> Outcome {
    let (_rf, c): (ReplayFile, C19Case) = read_replay(path);
    let r = exec_c19_dyn(&c);
    let mut o = Outcome::default();
    o.evaluations = 1;
    o.is_replay = true;
    o.harness_bug = r.harness_bug;
    if let Some(f) = r.fail {
        if f.prop == "C19" {
            o.violation = Some(Violation {
                prop: f.prop.to_string(),
                sig: f.sig,
                msg: f.msg,
                replay: path.to_string(),
            });
        } else {
            println!("replay fails a foreign oracle {} [{}]: {}", f.prop, f.sig, f.msg);
        }
    }
    o
}

#[allow(dead_code)]
fn unused(_: &Model, _: Key, _: BTreeSet<u8>) {}
