//! History-based checks: one generated case = universe + operation list, run through the interpreter.

use crate::engine::*;
use crate::env::{Env, Fail, Focus, SV};
use crate::gen::{self, Weights};
use crate::interp::{run_history, World};
use crate::ops::{build_universe, Case};
use crate::tp::TP;
use std::collections::{BTreeMap, BTreeSet};
use std::panic::{catch_unwind, AssertUnwindSafe};

pub type Events = BTreeMap<&'static str, u64>;

#[derive(Clone)]
pub struct HistSpec {
    pub id: &'static str,
    pub label: &'static str,
    pub focus: Focus,
    pub accept: Vec<&'static str>,
    pub weights: Weights,
    pub types: Vec<&'static str>,
    /// start every history with a bulk insertion of hundreds of prefixes
    pub scale: bool,
    pub max_uni: usize,
    pub min_uni: usize,
    pub min_ops: usize,
    pub max_ops: usize,
    /// cases per (type, shard)
    pub cases: u32,
    pub shards: u32,
    pub full_queries: bool,
    pub stop_on_taint: bool,
    pub nontrivial: fn(&Events) -> bool,
    pub post: Post,
    /// a panic inside one of these crate operations counts as a violation of this property
    pub panic_ops: Vec<&'static str>,
    /// run the histories through the PrefixSet interpreter instead
    pub set_mode: bool,
}

/// state-level checks run on the final state of a history
#[derive(Clone, Copy, Debug, PartialEq, Eq)]
pub enum Post {
    None,
    C11,
    C12,
    C20,
}

/// A panic inside one of the operations a property is about is a violation of that property too.
pub fn retag_panic(f: &mut Fail, id: &'static str, ops: &[&'static str]) {
    if f.prop == "C20" && id != "C20" {
        if let Some(op) = f.sig.strip_prefix("C20:panic:") {
            if ops.iter().any(|o| op == *o || (o.ends_with('*') && op.starts_with(o.trim_end_matches('*')))) {
                f.prop = id;
                f.sig = format!("{id}:panic:{op}");
            }
        }
    }
}

pub fn ev_has(e: &Events, k: &str) -> bool {
    e.get(k).copied().unwrap_or(0) > 0
}

/// Convert a caught panic into a failure (C20) or a harness bug.
pub fn panic_to_fail(cur_op: &str, step: usize, drift_tainted: bool) -> Result<Fail, String> {
    let (file, line, msg) = take_last_panic();
    if file.contains("/verif/harness/") && !msg.contains("<injected>") {
        return Err(format!("panic in harness code at {file}:{line}: {msg}"));
    }
    let short = file.rsplit("/src/").next().unwrap_or(&file).to_string();
    let sig = if drift_tainted && msg.contains("overflow") {
        // consequence of the listed finding "TrieViewMut::set/remove do not update len()"
        "C20:panic:count-underflow-after-view-write".to_string()
    } else {
        format!("C20:panic:{cur_op}")
    };
    Ok(Fail {
        prop: "C20",
        sig,
        msg: format!("step {step}: `{cur_op}` panicked at {short}:{line}: {msg}"),
    })
}

/// Compact, readable rendering of a case: prefix references are resolved against the universe
/// (`0101` = network bits, `*` = zero-length prefix, `~h` = given with host bits set).
pub fn render_case(c: &Case, uni_w: u8) -> String {
    let uni = build_universe(&c.usteps, uni_w);
    fn walk(v: &mut serde_json::Value, uni: &[crate::model::Raw], w: u8) {
        match v {
            serde_json::Value::Object(m) => {
                if m.len() == 2 && m.contains_key("i") && m.contains_key("noise") {
                    let i = m["i"].as_u64().unwrap_or(0) as u16;
                    let noise = m["noise"].as_u64().unwrap_or(0) as u8;
                    let r = crate::ops::resolve(uni, crate::ops::PRef { i, noise }, w);
                    *v = serde_json::Value::String(format!("{}{}", r.key().show(), if noise != 0 { "~h" } else { "" }));
                    return;
                }
                if m.len() == 2 && m.contains_key("bits") && m.contains_key("len") {
                    let bits = u128::from_str_radix(m["bits"].as_str().unwrap_or("0"), 16).unwrap_or(0);
                    let len = m["len"].as_u64().unwrap_or(0) as u8;
                    *v = serde_json::Value::String(crate::model::Key::new(bits, len).show());
                    return;
                }
                for (_, x) in m.iter_mut() {
                    walk(x, uni, w);
                }
            }
            serde_json::Value::Array(a) => a.iter_mut().for_each(|x| walk(x, uni, w)),
            _ => {}
        }
    }
    let mut s = format!(
        "type={} universe=[{}] ops=[",
        c.ptype,
        uni.iter().map(|r| r.key().show()).collect::<Vec<_>>().join(" ")
    );
    for (i, o) in c.ops.iter().enumerate() {
        if i > 0 {
            s.push_str("; ");
        }
        let mut v = serde_json::to_value(o).unwrap_or_default();
        walk(&mut v, &uni, uni_w);
        let txt = v.to_string().replace('"', "");
        s.push_str(&txt);
        if s.len() > 1800 {
            s.push_str(" ...");
            break;
        }
    }
    s.push(']');
    s
}

pub fn exec_hist<P: TP>(case: &Case, spec: &HistSpec, known: &BTreeSet<String>, strict: bool) -> CaseResult {
    let uni = build_universe(&case.usteps, P::W);
    let mut env = Env::new(spec.focus, uni);
    env.known = known.clone();
    env.strict = strict;
    env.full_queries = spec.full_queries && case.ops.len() <= 30;
    env.stop_on_taint = spec.stop_on_taint;
    let mut w: World<P, u64, SV> = World::new();
    crate::views::NT.with(|n| n.borrow_mut().clear());
    crate::views::SUB.with(|c| c.set(0));
    let post = spec.post;
    let set_mode = spec.set_mode;
    let r = catch_unwind(AssertUnwindSafe(|| {
        if set_mode {
            let s = crate::setinterp::run_set_history::<P>(&case.ops, &mut env)?;
            w.a.drift = s.drift;
            return Ok(());
        }
        run_history(&mut w, &case.ops, &mut env)?;
        env.step = case.ops.len();
        match post {
            Post::None => Ok(()),
            Post::C20 => {
                if env.stopped_on_taint || w.a.drift != 0 {
                    env.ev("c20_inject_skipped_tainted");
                    return Ok(());
                }
                let n = case.ops.len().min(10);
                let side: crate::env::Side<P, u64> = crate::env::Side {
                    map: w.a.map.clone(),
                    model: w.a.model.clone(),
                    canonical: w.a.canonical,
                    drift: w.a.drift,
                    peak_nodes: w.a.peak_nodes,
                    name: "A",
                };
                crate::c20::inject_all(&side, &mut env, &case.ops[..n])
            }
            Post::C11 | Post::C12 => {
                for which in 0..2 {
                    let models = [&w.a.model, &w.b.model];
                    let qs = crate::env::query_set::<P>(&env.uni, &models, env.full_queries, 99);
                    macro_rules! go {
                        ($side:expr) => {
                            if post == Post::C11 {
                                crate::views::check_c11(&mut $side, &mut env, &qs)?
                            } else {
                                crate::views::check_c12(&mut $side, &mut env, &qs, case.ops.len() as u64)?
                            }
                        };
                    }
                    if which == 0 {
                        if post == Post::C11 {
                            crate::views::check_set_views::<P>(&w.a.model, &mut env, &qs)?;
                        }
                        go!(w.a);
                    } else if !w.b.model.m.is_empty() {
                        go!(w.b);
                    }
                }
                Ok(())
            }
        }
    }));
    let mut res = CaseResult::default();
    res.sub_nontrivial = crate::views::NT.with(|n| std::mem::take(&mut *n.borrow_mut()));
    res.sub_evals = crate::views::SUB.with(|c| c.get());
    match r {
        Ok(Ok(())) => {}
        Ok(Err(f)) => res.fail = Some(f),
        Err(_) => {
            let tainted = w.a.drift != 0 || w.b.drift != 0 || env.has_ev("tainted");
            match panic_to_fail(env.cur_op, env.step, tainted) {
                Ok(f) => res.fail = Some(f),
                Err(hb) => res.harness_bug = Some(hb),
            }
        }
    }
    // a panic that is the documented consequence of a tolerated finding ends the case quietly
    if let Some(f) = &res.fail {
        if f.sig == "C20:panic:count-underflow-after-view-write" && !strict {
            env.ev("ended_by_known_consequence");
            res.fail = None;
        }
    }
    if let Some(f) = &mut res.fail {
        retag_panic(f, spec.id, &spec.panic_ops);
    }
    res.nontrivial = (spec.nontrivial)(&env.ev);
    res.known_hits = env.known_hits.clone();
    res.ev = env.ev;
    res.ev.insert("ops_total", case.ops.len() as u64);
    res.sample = render_case(case, P::W);
    res
}

pub fn exec_hist_dyn(case: &Case, spec: &HistSpec, known: &BTreeSet<String>, strict: bool) -> CaseResult {
    fn go<P: TP>(case: &Case, spec: &HistSpec, known: &BTreeSet<String>, strict: bool) -> CaseResult {
        exec_hist::<P>(case, spec, known, strict)
    }
    let mut r = crate::dispatch_tp!(case.ptype.as_str(), go, case, spec, known, strict);
    if spec.id == "C18" {
        c18_twin(&mut r, || {
            let twin = crate::ops::strip_noise(case);
            crate::dispatch_tp!(twin.ptype.as_str(), go, &twin, spec, known, strict)
        });
    }
    r
}

/// C18, interchangeability clause: if a case fails an oracle of another property (lookup, removal,
/// selection, set operation) but the *same case with all host bits zeroed* passes, then the behaviour
/// depends on host bits - which is exactly what C18 forbids.
pub fn c18_twin(r: &mut CaseResult, run_twin: impl FnOnce() -> CaseResult) {
    let Some(f) = &r.fail else { return };
    if f.prop == "C18" || f.prop == "BUILD" && false {
        return;
    }
    let twin = run_twin();
    if twin.fail.is_none() && twin.harness_bug.is_none() {
        let f = r.fail.take().unwrap();
        r.fail = Some(Fail {
            prop: "C18",
            sig: format!("C18:behaviour-depends-on-host-bits:{}", f.sig),
            msg: format!("the same case passes when every prefix is given with zeroed host bits, but with host bits set: {}", f.msg),
        });
    }
}

/// Run a history-based check over all its prefix types and shards.
pub fn run_hist_check(spec: &HistSpec, seed: u64) -> Outcome {
    let known = known_sigs("*");
    let mut jobs = Vec::new();
    for t in &spec.types {
        for sh in 0..spec.shards {
            jobs.push((*t, sh));
        }
    }
    let accept = Accept {
        props: spec.accept.clone(),
    };
    let threads = std::thread::available_parallelism().map(|n| n.get()).unwrap_or(4).min(16);
    let mut o = run_parallel(jobs, threads, |(t, sh)| {
        let strat = if spec.scale {
            gen::scale_case(t, &spec.weights, spec.max_ops)
        } else if spec.min_ops > 0 { gen::case_min(t, &spec.weights, spec.min_uni.max(2), spec.max_uni, spec.min_ops, spec.max_ops.max(spec.min_ops)) } else { gen::case(t, &spec.weights, spec.max_uni, spec.max_ops, 0) };
        let label = format!("{}-{}-{}", spec.label, t, sh);
        let mut o = run_shard(spec.id, &label, strat, spec.cases, seed.wrapping_mul(1_000_003).wrapping_add(sh as u64), &accept, &known, |c| {
            exec_hist_dyn(c, spec, &known, false)
        });
        o.classes.insert(format!("type:{t}"), o.evaluations);
        o
    });
    o.extra.insert("prefix_types".into(), serde_json::to_value(&spec.types).unwrap());
    o
}

pub fn replay_hist(spec: &HistSpec, path: &str) -> Outcome {
    let (rf, case): (ReplayFile, Case) = read_replay(path);
    let known = BTreeSet::new();
    let r = exec_hist_dyn(&case, spec, &known, true);
    let mut o = Outcome::default();
    o.evaluations = 1;
    o.is_replay = true;
    if let Some(hb) = r.harness_bug {
        o.harness_bug = Some(hb);
    }
    if let Some(f) = r.fail {
        if spec.accept.iter().any(|p| *p == f.prop) {
            o.violation = Some(Violation {
                prop: f.prop.to_string(),
                sig: f.sig,
                msg: f.msg,
                replay: path.to_string(),
            });
        } else {
            println!("replay fails a foreign oracle {} [{}]: {}", f.prop, f.sig, f.msg);
        }
    }
    let _ = rf;
    o
}
