//! C14 compile-time part: generated client programs that must / must not be accepted by rustc.
//!
//! Two generated crates: `borrow` (all programs type-check; conflict programs must be rejected by
//! the borrow checker / move checker) and `traits` (missing Clone / Copy / Send / Sync impls, which
//! are type errors and would pre-empt borrow checking). `cargo check --message-format=json`
//! reports the errors of all functions at once; errors are attributed to functions by line.

use crate::engine::*;
use serde::{Deserialize, Serialize};
use std::collections::{BTreeMap, BTreeSet};
use std::process::Command;

#[derive(Clone, Debug, Serialize, Deserialize)]
pub struct Prog {
    pub krate: String,
    pub name: String,
    pub template: String,
    pub body: String,
    pub must_fail: bool,
    /// known-finding signature class (for auto-trait cells)
    pub class: String,
}

const PRELUDE_BORROW: &str = r#"#![allow(unused, dropping_references, clippy::all)]
use prefix_trie::map::*;
use prefix_trie::trieview::*;
use prefix_trie::*;
type P = (u32, u8);
type V = u64;
type M = PrefixMap<P, V>;
fn touch<T>(_t: &T) {}
"#;

const PRELUDE_TRAITS: &str = r#"#![allow(unused, clippy::all)]
use prefix_trie::map::*;
use prefix_trie::trieview::*;
use prefix_trie::*;
use std::cell::Cell;
use std::rc::Rc;
use std::sync::MutexGuard;
type P = (u32, u8);
type G = MutexGuard<'static, u32>;
fn assert_send<T: Send>() {}
fn assert_sync<T: Sync>() {}
fn assert_copy<T: Copy>() {}
fn assert_clone<T: Clone>() {}
"#;

fn exclusive() -> Vec<(&'static str, &'static str)> {
    vec![
        ("view_mut", "m.view_mut()"),
        ("view_mut_at", "m.view_mut_at(q).unwrap()"),
        ("iter_mut", "m.iter_mut()"),
        ("values_mut", "m.values_mut()"),
        ("get_mut", "m.get_mut(&q).unwrap()"),
        ("get_lpm_mut", "m.get_lpm_mut(&q).unwrap()"),
        ("children_mut", "m.children_mut(&q)"),
        ("entry", "m.entry(q)"),
        ("view_mut_left", "m.view_mut().left().unwrap()"),
        ("view_mut_find", "m.view_mut().find(q).unwrap()"),
        ("view_mut_find_lpm", "m.view_mut().find_lpm(&q).unwrap()"),
        ("view_mut_into_iter", "m.view_mut().into_iter()"),
        ("view_mut_split", "m.view_mut().split()"),
    ]
}

fn shared() -> Vec<(&'static str, &'static str)> {
    vec![
        ("view", "m.view()"),
        ("view_at", "m.view_at(q)"),
        ("iter", "m.iter()"),
        ("keys", "m.keys()"),
        ("values", "m.values()"),
        ("get", "m.get(&q)"),
        ("get_key_value", "m.get_key_value(&q)"),
        ("get_lpm", "m.get_lpm(&q)"),
        ("get_spm", "m.get_spm(&q)"),
        ("children", "m.children(&q)"),
        ("cover", "m.cover(&q)"),
        ("ref_into_iter", "(&m).into_iter()"),
        ("union", "m.view().union(m2.view())"),
        ("view_find_left", "m.view().find(q).unwrap().left()"),
    ]
}

fn mutators() -> Vec<(&'static str, &'static str)> {
    vec![
        ("insert", "m.insert(q, 1);"),
        ("remove", "m.remove(&q);"),
        ("remove_keep_tree", "m.remove_keep_tree(&q);"),
        ("remove_children", "m.remove_children(&q);"),
        ("retain", "m.retain(|_, _| true);"),
        ("clear", "m.clear();"),
        ("entry_or_insert", "m.entry(q).or_insert(1);"),
        ("into_iter", "let _x = m.into_iter();"),
    ]
}

/// borrowing methods of a mutable view `v`
fn view_borrowers() -> Vec<(&'static str, &'static str)> {
    vec![
        ("iter_mut", "v.iter_mut()"),
        ("values_mut", "v.values_mut()"),
        ("value_mut", "v.value_mut()"),
        ("prefix_value_mut", "v.prefix_value_mut()"),
        ("union_mut", "v.union_mut(m2.view_mut())"),
        ("intersection_mut", "v.intersection_mut(m2.view_mut())"),
        ("difference_mut", "v.difference_mut(m3.view())"),
        ("covering_difference_mut", "v.covering_difference_mut(m3.view())"),
    ]
}

/// consuming methods of a mutable view `v`
fn view_consumers() -> Vec<(&'static str, &'static str)> {
    vec![
        ("left", "v.left()"),
        ("right", "v.right()"),
        ("split", "v.split()"),
        ("find", "v.find(q)"),
        ("find_exact", "v.find_exact(&q)"),
        ("find_lpm", "v.find_lpm(&q)"),
        ("into_iter", "v.into_iter()"),
        ("view_mut_at", "v.view_mut_at(q)"),
    ]
}

pub fn borrow_programs() -> Vec<Prog> {
    let mut out = Vec::new();
    let mut add = |template: &str, name: String, body: String, must_fail: bool| {
        out.push(Prog {
            krate: "borrow".into(),
            name,
            template: template.into(),
            body,
            must_fail,
            class: String::new(),
        })
    };
    let head = "let mut m: M = M::new(); let mut m2: M = M::new(); let m3: M = M::new();";
    let ex = exclusive();
    let sh = shared();
    for (i, (ni, ei)) in ex.iter().enumerate() {
        for (j, (nj, ej)) in ex.iter().enumerate() {
            add("two_exclusive_live", format!("xx_{i}_{j}_{ni}__{nj}"), format!("{head} let a = {ei}; let b = {ej}; touch(&a); touch(&b);"), true);
            add("two_exclusive_sequential", format!("xx_ok_{i}_{j}_{ni}__{nj}"), format!("{head} let a = {ei}; touch(&a); let b = {ej}; touch(&b);"), false);
        }
    }
    for (i, (ni, si)) in sh.iter().enumerate() {
        for (j, (nj, ej)) in ex.iter().enumerate() {
            add("shared_live_across_exclusive", format!("sx_{i}_{j}_{ni}__{nj}"), format!("{head} let s = {si}; let e = {ej}; touch(&e); touch(&s);"), true);
            add("exclusive_live_across_shared", format!("xs_{i}_{j}_{ni}__{nj}"), format!("{head} let e = {ej}; let s = {si}; touch(&s); touch(&e);"), true);
            add("shared_then_exclusive_sequential", format!("sx_ok_{i}_{j}_{ni}__{nj}"), format!("{head} let s = {si}; touch(&s); let e = {ej}; touch(&e);"), false);
        }
    }
    for (i, (ni, si)) in sh.iter().enumerate() {
        for (j, (nj, mj)) in mutators().iter().enumerate() {
            add("mutation_while_shared_handle_live", format!("sm_{i}_{j}_{ni}__{nj}"), format!("{head} let s = {si}; {mj} touch(&s);"), true);
            add("mutation_after_shared_handle", format!("sm_ok_{i}_{j}_{ni}__{nj}"), format!("{head} let s = {si}; touch(&s); {mj}"), false);
        }
    }
    for (i, (ni, ei)) in ex.iter().enumerate() {
        for (j, (nj, mj)) in mutators().iter().enumerate() {
            add("mutation_while_exclusive_handle_live", format!("xm_{i}_{j}_{ni}__{nj}"), format!("{head} let e = {ei}; {mj} touch(&e);"), true);
        }
    }
    let vb = view_borrowers();
    let vc = view_consumers();
    for (i, (ni, bi)) in vb.iter().enumerate() {
        for (j, (nj, bj)) in vb.iter().enumerate() {
            add("two_borrows_of_one_mutable_view", format!("vb_{i}_{j}_{ni}__{nj}"), format!("{head} let mut v = m.view_mut(); let a = {bi}; let b = {bj}; touch(&a); touch(&b);"), true);
            // the sequential sibling is benign unless both need m2 mutably at once (they do not: sequential)
            add("two_borrows_sequential", format!("vb_ok_{i}_{j}_{ni}__{nj}"), format!("{head} let mut v = m.view_mut(); {{ let a = {bi}; touch(&a); }} {{ let b = {bj}; touch(&b); }}"), false);
        }
        add("readonly_view_coexists_with_mutable_borrow", format!("vr_{i}_{ni}"), format!("{head} let mut v = m.view_mut(); let r = (&v).view(); let a = {bi}; touch(&a); touch(&r);"), true);
        add("readonly_view_then_mutable_borrow", format!("vr_ok_{i}_{ni}"), format!("{head} let mut v = m.view_mut(); {{ let r = (&v).view(); touch(&r); }} let a = {bi}; touch(&a);"), false);
    }
    // shared accessors of a mutable view must not stay alive across a mutable use of the same view
    let accessors = [("value", "v.value()"), ("prefix", "v.prefix()"), ("prefix_value", "v.prefix_value()"), ("view", "(&v).view()"), ("view_iter", "(&v).view().iter()")];
    let mut_uses = [("value_mut", "v.value_mut()"), ("set", "v.set(1)"), ("remove", "v.remove()"), ("iter_mut", "v.iter_mut()"), ("values_mut", "v.values_mut()"), ("prefix_value_mut", "v.prefix_value_mut()"), ("union_mut", "v.union_mut(m2.view_mut())"), ("difference_mut", "v.difference_mut(m3.view())")];
    for (i, (na_, acc)) in accessors.iter().enumerate() {
        for (j, (nm, mu)) in mut_uses.iter().enumerate() {
            add("shared_accessor_live_across_mutable_use", format!("va_{i}_{j}_{na_}__{nm}"), format!("{head} let mut v = m.view_mut(); let r = {acc}; let a = {mu}; touch(&a); touch(&r);"), true);
            add("shared_accessor_then_mutable_use", format!("va_ok_{i}_{j}_{na_}__{nm}"), format!("{head} let mut v = m.view_mut(); {{ let r = {acc}; touch(&r); }} let a = {mu}; touch(&a);"), false);
        }
    }
    // items of a *_mut traversal must not stay alive across another mutable use of the view
    for (i, (ni, bi)) in vb.iter().enumerate() {
        for (j, (nm, mu)) in mut_uses.iter().enumerate() {
            add("mut_traversal_items_live_across_mutable_use", format!("vi_{i}_{j}_{ni}__{nm}"), format!("{head} let mut v = m.view_mut(); let items: Vec<_> = {bi}.into_iter().collect(); let a = {mu}; touch(&a); touch(&items);"), true);
        }
    }
    for (i, (ni, ci)) in vc.iter().enumerate() {
        for (j, (nj, cj)) in vc.iter().enumerate() {
            add("mutable_view_used_after_move", format!("vc_{i}_{j}_{ni}__{nj}"), format!("{head} let v = m.view_mut(); let a = {ci}; let b = {cj}; touch(&a); touch(&b);"), true);
        }
        add("mutable_view_consumed_once", format!("vc_ok_{i}_{ni}"), format!("{head} let v = m.view_mut(); let a = {ci}; touch(&a);"), false);
        for (j, (nj, bj)) in vb.iter().enumerate() {
            add("mutable_view_borrowed_after_move", format!("vcb_{i}_{j}_{ni}__{nj}"), format!("{head} let mut v = m.view_mut(); let a = {ci}; let b = {bj}; touch(&a); touch(&b);"), true);
            add("mutable_view_moved_while_borrowed", format!("vbc_{i}_{j}_{ni}__{nj}"), format!("{head} let mut v = m.view_mut(); let b = {bj}; let a = {ci}; touch(&b);"), true);
        }
        add("mutable_view_moved_while_readonly_view_live", format!("vrc_{i}_{ni}"), format!("{head} let v = m.view_mut(); let r = (&v).view(); let a = {ci}; touch(&r);"), true);
    }
    // split halves are independent
    for (j, (nj, bj)) in vb.iter().enumerate() {
        add("split_halves_used_together", format!("split_ok_{j}_{nj}"), format!("{head} let (a, b) = m.view_mut().split(); let mut v = a.unwrap(); let mut w = b.unwrap(); let x = {bj}; let y = w.iter_mut(); touch(&x); touch(&y);"), false);
    }
    add("split_halves_set_operation", "split_union_ok".into(), format!("{head} let (a, b) = m.view_mut().split(); let mut a = a.unwrap(); let b = b.unwrap(); let it = a.union_mut(b); touch(&it);"), false);
    add("split_halves_set_operation", "split_intersection_ok".into(), format!("{head} let (a, b) = m.view_mut().split(); let mut a = a.unwrap(); let b = b.unwrap(); let it = a.intersection_mut(b); touch(&it);"), false);
    add("split_halves_set_operation", "split_difference_ok".into(), format!("{head} let (a, b) = m.view_mut().split(); let mut a = a.unwrap(); let b = b.unwrap(); let it = a.difference_mut(&b); touch(&it);"), false);
    add("set_operation_with_itself", "union_self".into(), format!("{head} let mut v = m.view_mut(); let it = v.union_mut(v); touch(&it);"), true);
    add("set_operation_with_own_readonly_view", "difference_self".into(), format!("{head} let mut v = m.view_mut(); let it = v.difference_mut(&v); touch(&it);"), true);
    // handles must not outlive the map
    for (i, (ni, e)) in ex.iter().chain(sh.iter()).enumerate() {
        if e.contains("m2") {
            continue;
        }
        let e2 = e.replace("m.", "local.").replace("(&m)", "(&local)");
        add("handle_outlives_map", format!("esc_{i}_{ni}"), format!("let h; {{ let mut local: M = M::new(); h = {e2}; }} touch(&h);"), true);
        add("handle_dies_before_map", format!("esc_ok_{i}_{ni}"), format!("let mut local: M = M::new(); {{ let h = {e2}; touch(&h); }}"), false);
    }
    // threads
    add("two_threads_mutate_one_map", "thr_map".into(), format!("{head} std::thread::scope(|s| {{ s.spawn(|| {{ m.insert(q, 1); }}); s.spawn(|| {{ m.insert(q, 2); }}); }});"), true);
    add("two_threads_share_one_mutable_view", "thr_view".into(), format!("{head} let mut v = m.view_mut(); std::thread::scope(|s| {{ s.spawn(|| {{ v.iter_mut().count(); }}); s.spawn(|| {{ v.iter_mut().count(); }}); }});"), true);
    add("reader_thread_while_writer_thread", "thr_rw".into(), format!("{head} std::thread::scope(|s| {{ s.spawn(|| {{ m.get(&q); }}); s.spawn(|| {{ m.insert(q, 2); }}); }});"), true);
    add("two_threads_on_split_halves", "thr_split_ok".into(), format!("{head} let (a, b) = m.view_mut().split(); let (mut a, mut b) = (a.unwrap(), b.unwrap()); std::thread::scope(|s| {{ s.spawn(move || {{ a.iter_mut().for_each(|(_, v)| *v += 1); }}); s.spawn(move || {{ b.iter_mut().for_each(|(_, v)| *v += 1); }}); }});"), false);
    add("two_reader_threads", "thr_readers_ok".into(), format!("{head} std::thread::scope(|s| {{ s.spawn(|| {{ m.get(&q); }}); s.spawn(|| {{ m.view().iter().count(); }}); }});"), false);
    out
}

pub fn trait_programs() -> Vec<Prog> {
    let mut out = Vec::new();
    // carrier, can hand out: owns T / &T only / &mut T, mentions T twice (set ops)
    // kind: "own" | "ref" | "mutref" | "ro" (read-only carrier) | "mut" (mutable carrier holding the shared table)
    let carriers: Vec<(&str, &str, &str)> = vec![
        ("PrefixMap", "PrefixMap<P, {T}>", "own"),
        ("RefPrefixMap", "&'static PrefixMap<P, {T}>", "ref"),
        ("MutPrefixMap", "&'static mut PrefixMap<P, {T}>", "mutref"),
        ("IntoIter", "prefix_trie::map::IntoIter<P, {T}>", "own"),
        ("IntoValues", "IntoValues<P, {T}>", "own"),
        ("TrieView", "TrieView<'static, P, {T}>", "ro"),
        ("Iter", "prefix_trie::map::Iter<'static, P, {T}>", "ro"),
        ("Values", "Values<'static, P, {T}>", "ro"),
        ("Cover", "Cover<'static, 'static, P, {T}>", "ro"),
        ("CoverValues", "CoverValues<'static, 'static, P, {T}>", "ro"),
        ("Union", "Union<'static, P, {T}, {T}>", "ro"),
        ("Intersection", "Intersection<'static, P, {T}, {T}>", "ro"),
        ("Difference", "Difference<'static, P, {T}, {T}>", "ro"),
        ("CoveringDifference", "CoveringDifference<'static, P, {T}, {T}>", "ro"),
        ("TrieViewMut", "TrieViewMut<'static, P, {T}>", "mut"),
        ("IterMut", "IterMut<'static, P, {T}>", "mut"),
        ("ValuesMut", "ValuesMut<'static, P, {T}>", "mut"),
        ("UnionMut", "UnionMut<'static, P, {T}, {T}>", "mut"),
        ("IntersectionMut", "IntersectionMut<'static, P, {T}, {T}>", "mut"),
        ("DifferenceMut", "DifferenceMut<'static, P, {T}, u32>", "mut"),
        ("CoveringDifferenceMut", "CoveringDifferenceMut<'static, P, {T}, u32>", "mut"),
        ("Entry", "Entry<'static, P, {T}>", "mutref"),
        ("OccupiedEntry", "OccupiedEntry<'static, P, {T}>", "mutref"),
        ("VacantEntry", "VacantEntry<'static, P, {T}>", "mutref"),
    ];
    let values = [("Rc", "Rc<u32>", false, false), ("Cell", "Cell<u32>", true, false), ("Guard", "G", false, true)];
    for (cn, cty, kind) in &carriers {
        for (vn, vty, t_send, t_sync) in &values {
            let ty = cty.replace("{T}", vty);
            // access model: when is `carrier: Send` / `carrier: Sync` unsound?
            let send_needs_send = matches!(*kind, "own" | "mutref" | "mut");
            let send_needs_sync = matches!(*kind, "ref" | "ro");
            let sync_needs_sync = true; // every carrier listed can hand out (or clone into) &T through &self
            let send_must_fail = (send_needs_send && !t_send) || (send_needs_sync && !t_sync);
            let sync_must_fail = sync_needs_sync && !t_sync && !matches!(*cn, "IterMut" | "ValuesMut" | "UnionMut" | "IntersectionMut" | "DifferenceMut" | "CoveringDifferenceMut" | "IntoIter" | "IntoValues" | "VacantEntry");
            if send_must_fail {
                out.push(Prog {
                    krate: "traits".into(),
                    name: format!("send_{cn}_{vn}"),
                    template: "auto_trait_send".into(),
                    body: format!("assert_send::<{ty}>();"),
                    must_fail: true,
                    class: if *kind == "mut" && *vn == "Guard" { "mut-carrier-send-with-nonsend-value".into() } else { String::new() },
                });
            }
            if sync_must_fail {
                out.push(Prog {
                    krate: "traits".into(),
                    name: format!("sync_{cn}_{vn}"),
                    template: "auto_trait_sync".into(),
                    body: format!("assert_sync::<{ty}>();"),
                    must_fail: true,
                    class: String::new(),
                });
            }
        }
        // thread-safe value type: everything is Send + Sync (benign)
        let ty = cty.replace("{T}", "u32");
        out.push(Prog {
            krate: "traits".into(),
            name: format!("sendsync_ok_{cn}"),
            template: "auto_trait_benign".into(),
            body: format!("assert_send::<{ty}>(); assert_sync::<{ty}>();"),
            must_fail: false,
            class: String::new(),
        });
        // mutable carriers must be neither Clone nor Copy
        if matches!(*kind, "mut" | "mutref") && !cn.starts_with("MutPrefixMap") {
            out.push(Prog {
                krate: "traits".into(),
                name: format!("clone_{cn}"),
                template: "mutable_handle_clone".into(),
                body: format!("assert_clone::<{ty}>();"),
                must_fail: true,
                class: String::new(),
            });
            out.push(Prog {
                krate: "traits".into(),
                name: format!("copy_{cn}"),
                template: "mutable_handle_copy".into(),
                body: format!("assert_copy::<{ty}>();"),
                must_fail: true,
                class: String::new(),
            });
        }
    }
    // read-only views are Clone (benign)
    out.push(Prog {
        krate: "traits".into(),
        name: "clone_ok_TrieView".into(),
        template: "readonly_handle_clone".into(),
        body: "assert_clone::<TrieView<'static, P, u32>>(); assert_clone::<prefix_trie::map::Iter<'static, P, u32>>();".into(),
        must_fail: false,
        class: String::new(),
    });
    out
}

/// Write one crate and run cargo check; returns for each program the list of error codes found in it.
pub fn check_crate(krate: &str, progs: &[Prog]) -> Result<BTreeMap<String, Vec<String>>, String> {
    let dir = format!("{}/out/progs/{krate}", crate::engine::verif_root());
    std::fs::create_dir_all(format!("{dir}/src")).map_err(|e| e.to_string())?;
    std::fs::create_dir_all(format!("{dir}/.cargo")).map_err(|e| e.to_string())?;
    std::fs::write(
        format!("{dir}/Cargo.toml"),
        format!("[package]\nname = \"progs_{krate}\"\nversion = \"0.0.0\"\nedition = \"2021\"\npublish = false\n\n[dependencies]\nprefix-trie = {{ path = \"/repo\" }}\n\n[workspace]\n"),
    )
    .map_err(|e| e.to_string())?;
    std::fs::write(format!("{dir}/.cargo/config.toml"), "[net]\noffline = true\n").map_err(|e| e.to_string())?;
    let _ = std::fs::copy(format!("{}/harness/Cargo.lock", crate::engine::verif_root()), format!("{dir}/Cargo.lock"));
    let mut src = String::new();
    src.push_str(if krate == "borrow" { PRELUDE_BORROW } else { PRELUDE_TRAITS });
    let mut ranges: Vec<(usize, usize, String)> = Vec::new();
    let mut line = src.lines().count() + 1;
    for p in progs {
        let sig = if krate == "borrow" { format!("pub fn {}(q: P) {{", p.name) } else { format!("pub fn {}() {{", p.name) };
        let text = format!("{sig}\n    {}\n}}\n", p.body);
        let n = text.lines().count();
        ranges.push((line, line + n - 1, p.name.clone()));
        line += n;
        src.push_str(&text);
    }
    std::fs::write(format!("{dir}/src/lib.rs"), &src).map_err(|e| e.to_string())?;
    let out = Command::new("cargo")
        .args(["check", "--offline", "--message-format=json", "--target-dir", &format!("{}/target/progs", crate::engine::verif_root())])
        .current_dir(&dir)
        .env("CARGO_NET_OFFLINE", "true")
        .output()
        .map_err(|e| format!("cannot run cargo: {e}"))?;
    let stdout = String::from_utf8_lossy(&out.stdout);
    let mut res: BTreeMap<String, Vec<String>> = BTreeMap::new();
    let mut saw_lib_message = false;
    let mut unattributed: Vec<String> = Vec::new();
    for l in stdout.lines() {
        let Ok(v) = serde_json::from_str::<serde_json::Value>(l) else { continue };
        if v["reason"] == "compiler-message" {
            let pkg = v["package_id"].as_str().unwrap_or("");
            if !pkg.contains(&format!("progs_{krate}")) && !pkg.contains(&format!("progs/{krate}")) {
                // an error in the crate under test itself: it does not compile
                if v["message"]["level"] == "error" {
                    return Err(format!("prefix-trie does not compile: {}", v["message"]["message"]));
                }
                continue;
            }
            saw_lib_message = true;
            let m = &v["message"];
            if m["level"] != "error" {
                continue;
            }
            let code = m["code"]["code"].as_str().unwrap_or("E????").to_string();
            let mut attributed = false;
            if let Some(spans) = m["spans"].as_array() {
                for sp in spans {
                    if sp["is_primary"] == true {
                        let ln = sp["line_start"].as_u64().unwrap_or(0) as usize;
                        if let Some((_, _, name)) = ranges.iter().find(|(a, b, _)| ln >= *a && ln <= *b) {
                            res.entry(name.clone()).or_default().push(code.clone());
                            attributed = true;
                        }
                    }
                }
            }
            if !attributed && m["message"].as_str().map_or(true, |s| !s.starts_with("aborting due to") && !s.starts_with("could not compile")) {
                unattributed.push(format!("{code}: {}", m["message"]));
            }
        }
    }
    let _ = saw_lib_message;
    if !out.status.success() && res.is_empty() {
        return Err(format!("cargo check failed without attributable errors: {}\n{}", unattributed.join("; "), String::from_utf8_lossy(&out.stderr).lines().rev().take(15).collect::<Vec<_>>().join("\n")));
    }
    if !unattributed.is_empty() {
        return Err(format!("errors outside generated functions: {}", unattributed.join("; ")));
    }
    Ok(res)
}

pub fn run_programs(tier: &str, seed: u64, only: Option<&Prog>) -> Outcome {
    let mut o = Outcome::default();
    let known = known_sigs("*");
    let (mut borrow, mut traits) = (borrow_programs(), trait_programs());
    if let Some(p) = only {
        borrow.retain(|x| x.name == p.name && x.krate == p.krate);
        traits.retain(|x| x.name == p.name && x.krate == p.krate);
        // always keep one benign program so that the crate is not empty
        if p.krate == "borrow" && borrow.is_empty() {
            borrow.push(p.clone());
        }
        if p.krate == "traits" && traits.is_empty() {
            traits.push(p.clone());
        }
    } else if tier != "thorough" {
        // quick: every benign program, and a seed-dependent half of the conflict programs of the large grids
        let keep = |p: &Prog, i: usize| !p.must_fail || !matches!(p.template.as_str(), "two_exclusive_live" | "shared_live_across_exclusive" | "exclusive_live_across_shared" | "mutation_while_shared_handle_live" | "mutation_while_exclusive_handle_live") || (i as u64 + seed) % 2 == 0;
        let mut i = 0;
        borrow.retain(|p| {
            i += 1;
            keep(p, i)
        });
    }
    let mut templates: BTreeMap<String, u64> = BTreeMap::new();
    for (krate, progs) in [("borrow", &borrow), ("traits", &traits)] {
        if progs.is_empty() {
            continue;
        }
        let res = match check_crate(krate, progs) {
            Ok(r) => r,
            Err(e) => {
                o.harness_bug = Some(format!("generated crate `{krate}`: {e}"));
                return o;
            }
        };
        // borrowck only runs if type checking succeeded: a type error in the borrow crate is an infrastructure problem
        if krate == "borrow" {
            if let Some((name, codes)) = res.iter().find(|(_, c)| c.iter().any(|c| !matches!(c.as_str(), "E0499" | "E0502" | "E0505" | "E0382" | "E0597" | "E0506" | "E0503" | "E0716" | "E0373" | "E0521" | "E0524" | "E0501" | "E0713" | "E0515"))) {
                o.harness_bug = Some(format!("program {name} of the borrow crate fails with non-borrow errors {:?}: the public API changed under the harness", codes));
                return o;
            }
        }
        for p in progs.iter() {
            o.evaluations += 1;
            *templates.entry(format!("template:{}", p.template)).or_insert(0) += 1;
            let errs = res.get(&p.name);
            if p.must_fail {
                o.nontrivial.insert(fp_str(&format!("{}/{}", p.krate, p.name)));
                if o.samples.len() < 4 && (o.evaluations % 97 == 1) {
                    o.samples.push(format!("[must be rejected: {:?}] fn {}() {{ {} }}", errs.map(|e| e.clone()).unwrap_or_default(), p.name, p.body));
                }
                if errs.is_none() {
                    let sig = if p.class.is_empty() { format!("C14:program-accepted:{}", p.template) } else { format!("C14:auto-trait:{}", p.class) };
                    if known.contains(&sig) {
                        *o.known_hits.entry(sig).or_insert(0) += 1;
                        continue;
                    }
                    if o.violation.is_none() {
                        let msg = format!("rustc accepts a client program that must be rejected ({}): fn {}() {{ {} }}", p.template, p.name, p.body);
                        let replay = write_replay("C14", &format!("C14-prog-{}", p.name), seed, p, "C14", &sig, &msg);
                        o.violation = Some(Violation {
                            prop: "C14".into(),
                            sig,
                            msg,
                            replay,
                        });
                    }
                }
            } else if let Some(e) = errs {
                o.harness_bug = Some(format!("benign program {} is rejected ({:?}): fn {}() {{ {} }} -- the public API changed under the harness", p.name, e, p.name, p.body));
                return o;
            }
        }
    }
    for (k, v) in templates {
        o.classes.insert(k, v);
    }
    o.extra.insert("programs".into(), o.evaluations.into());
    o
}

pub fn replay_program(path: &str) -> Outcome {
    let (_rf, p): (ReplayFile, Prog) = read_replay(path);
    let mut o = run_programs("thorough", 0, Some(&p));
    o.is_replay = true;
    if let Some(v) = &mut o.violation {
        v.replay = path.to_string();
    }
    o
}

#[allow(dead_code)]
fn unused(_: BTreeSet<u8>) {}
