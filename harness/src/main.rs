use ptv::checks::run_check;
use ptv::engine::install_panic_hook;

fn main() {
    let args: Vec<String> = std::env::args().collect();
    if args.len() < 3 {
        eprintln!("usage: ptv <ID> <quick|thorough> [--seed N] [--replay FILE]");
        std::process::exit(2);
    }
    let id = args[1].clone();
    let tier = args[2].clone();
    let mut seed: u64 = std::env::var("VERIF_SEED").ok().and_then(|s| s.parse().ok()).unwrap_or(1);
    let mut replay: Option<String> = None;
    let mut i = 3;
    while i < args.len() {
        match args[i].as_str() {
            "--seed" => {
                seed = args[i + 1].parse().expect("seed");
                i += 2;
            }
            "--replay" => {
                replay = Some(args[i + 1].clone());
                i += 2;
            }
            "--replay-bytes" => {
                let target = if args.iter().any(|a| a == "setops") { "setops" } else { "ops" };
                std::process::exit(ptv::fuzz_entry::replay_bytes(&id, target, &args[i + 1]));
            }
            x => {
                eprintln!("unknown argument {x}");
                std::process::exit(2);
            }
        }
    }
    install_panic_hook();
    ptv::engine::start_watchdog(id.clone(), if tier == "thorough" { 300 } else { 60 });
    let code = run_check(&id, &tier, seed, replay.as_deref());
    std::process::exit(code);
}
