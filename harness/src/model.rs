//! Reference model: keys are `(network bits, length)`, all relations are plain integer code.

use crate::tp::{len_mask, TP};
use serde::{Deserialize, Serialize};
use std::collections::{BTreeMap, BTreeSet};

/// A prefix as the user hands it over: bits left-aligned in 128 bits (host bits included).
#[derive(Clone, Copy, PartialEq, Eq, Hash, Debug, Serialize, Deserialize, PartialOrd, Ord)]
pub struct Raw {
    #[serde(with = "crate::model::hex128")]
    pub bits: u128,
    pub len: u8,
}

/// Network form of a prefix. The derived order on `(net, len)` is the lexicographic prefix order.
#[derive(Clone, Copy, PartialEq, Eq, Hash, PartialOrd, Ord, Serialize, Deserialize)]
pub struct Key {
    #[serde(with = "crate::model::hex128")]
    pub net: u128,
    pub len: u8,
}

impl std::fmt::Debug for Key {
    fn fmt(&self, f: &mut std::fmt::Formatter<'_>) -> std::fmt::Result {
        write!(f, "{}", self.show())
    }
}

impl Key {
    pub const ROOT: Key = Key { net: 0, len: 0 };
    pub fn new(bits: u128, len: u8) -> Key {
        Key {
            net: bits & len_mask(len),
            len,
        }
    }
    /// short textual form: the network bits as a binary string (`*` for the root)
    pub fn show(&self) -> String {
        if self.len == 0 {
            return "*".to_string();
        }
        if self.len <= 16 {
            let mut s = String::new();
            for i in 0..self.len {
                s.push(if bit_at(self.net, i) { '1' } else { '0' });
            }
            s
        } else {
            format!("{:x}/{}", self.net >> (128 - ((self.len as u32 + 3) / 4 * 4)), self.len)
        }
    }
    pub fn covers(&self, o: &Key) -> bool {
        covers(*self, *o)
    }
}

impl Raw {
    pub fn key(&self) -> Key {
        Key::new(self.bits, self.len)
    }
}

pub fn key_of<P: TP>(p: &P) -> Key {
    Key::new(p.raw_bits(), p.raw_len())
}
pub fn raw_of<P: TP>(p: &P) -> Raw {
    Raw {
        bits: p.raw_bits(),
        len: p.raw_len(),
    }
}
pub fn mk<P: TP>(r: Raw) -> P {
    P::make(r.bits, r.len)
}
pub fn mk_key<P: TP>(k: Key) -> P {
    P::make(k.net, k.len)
}

#[inline]
pub fn bit_at(bits: u128, i: u8) -> bool {
    i < 128 && (bits >> (127 - i as u32)) & 1 == 1
}

/// `a` covers `b`: `a` is not longer and the first `a.len` bits agree.
#[inline]
pub fn covers(a: Key, b: Key) -> bool {
    a.len <= b.len && (a.len == 0 || ((a.net ^ b.net) >> (128 - a.len as u32)) == 0)
}

/// i-th leading bit of the network part, false for `i >= len`.
#[inline]
pub fn key_bit(k: Key, i: u32) -> bool {
    i < k.len as u32 && i < 128 && (k.net >> (127 - i)) & 1 == 1
}

pub fn lcp(a: Key, b: Key) -> Key {
    let eq = (a.net ^ b.net).leading_zeros().min(128) as u8;
    let len = eq.min(a.len).min(b.len);
    Key::new(a.net, len)
}

#[derive(Clone, Debug, PartialEq, Eq, Serialize, Deserialize)]
pub struct Stored {
    /// the bits passed by the user in the last inserting/replacing call (host bits included)
    #[serde(with = "crate::model::hex128")]
    pub repr: u128,
    pub value: u64,
}

/// The abstract ordered map.
#[derive(Clone, Debug, Default, PartialEq, Eq)]
pub struct Model {
    pub m: BTreeMap<Key, Stored>,
}

impl Model {
    pub fn new() -> Self {
        Self::default()
    }
    pub fn len(&self) -> usize {
        self.m.len()
    }
    pub fn get(&self, k: Key) -> Option<&Stored> {
        self.m.get(&k)
    }
    /// insert or replace; returns the previous value
    pub fn insert(&mut self, r: Raw, v: u64) -> Option<u64> {
        self.m
            .insert(
                r.key(),
                Stored {
                    repr: r.bits,
                    value: v,
                },
            )
            .map(|s| s.value)
    }
    pub fn remove(&mut self, k: Key) -> Option<u64> {
        self.m.remove(&k).map(|s| s.value)
    }
    pub fn keys(&self) -> Vec<Key> {
        self.m.keys().copied().collect()
    }
    /// all entries covering q, by increasing length
    pub fn cover(&self, q: Key) -> Vec<(Key, &Stored)> {
        let mut v: Vec<(Key, &Stored)> = self
            .m
            .iter()
            .filter(|(k, _)| covers(**k, q))
            .map(|(k, s)| (*k, s))
            .collect();
        v.sort_by_key(|(k, _)| k.len);
        v
    }
    pub fn lpm(&self, q: Key) -> Option<(Key, &Stored)> {
        self.m
            .iter()
            .filter(|(k, _)| covers(**k, q))
            .max_by_key(|(k, _)| k.len)
            .map(|(k, s)| (*k, s))
    }
    pub fn spm(&self, q: Key) -> Option<(Key, &Stored)> {
        self.m
            .iter()
            .filter(|(k, _)| covers(**k, q))
            .min_by_key(|(k, _)| k.len)
            .map(|(k, s)| (*k, s))
    }
    /// all entries covered by s, in key order
    pub fn children(&self, s: Key) -> Vec<(Key, &Stored)> {
        self.m
            .iter()
            .filter(|(k, _)| covers(s, **k))
            .map(|(k, st)| (*k, st))
            .collect()
    }
    pub fn children_keys(&self, s: Key) -> Vec<Key> {
        self.m.keys().filter(|k| covers(s, **k)).copied().collect()
    }
    /// the (key, repr, value) sequence in order
    pub fn seq(&self) -> Vec<(Key, u128, u64)> {
        self.m.iter().map(|(k, s)| (*k, s.repr, s.value)).collect()
    }
}

/// A tree shape as observed through views (or computed in closed form).
#[derive(Clone, Debug, PartialEq, Eq, Hash, PartialOrd, Ord)]
pub struct Shape {
    pub key: Key,
    pub has_value: bool,
    pub left: Option<Box<Shape>>,
    pub right: Option<Box<Shape>>,
}

impl Shape {
    pub fn count(&self) -> usize {
        1 + self.left.as_ref().map_or(0, |l| l.count()) + self.right.as_ref().map_or(0, |r| r.count())
    }
    pub fn depth(&self) -> usize {
        1 + self.left.as_ref().map_or(0, |l| l.depth()).max(self.right.as_ref().map_or(0, |r| r.depth()))
    }
    pub fn show(&self) -> String {
        let mut s = String::new();
        self.show_into(&mut s);
        s
    }
    fn show_into(&self, s: &mut String) {
        s.push_str(&self.key.show());
        if self.has_value {
            s.push('!');
        }
        if self.left.is_some() || self.right.is_some() {
            s.push('(');
            if let Some(l) = &self.left {
                l.show_into(s);
            } else {
                s.push('-');
            }
            s.push(',');
            if let Some(r) = &self.right {
                r.show_into(s);
            } else {
                s.push('-');
            }
            s.push(')');
        }
    }
    /// all nodes (key, has_value, n_children)
    pub fn nodes(&self, out: &mut Vec<(Key, bool, u8)>) {
        out.push((
            self.key,
            self.has_value,
            self.left.is_some() as u8 + self.right.is_some() as u8,
        ));
        if let Some(l) = &self.left {
            l.nodes(out);
        }
        if let Some(r) = &self.right {
            r.nodes(out);
        }
    }
    /// erase value flags (for "shape unchanged ignoring value flags")
    pub fn skeleton(&self) -> Shape {
        Shape {
            key: self.key,
            has_value: false,
            left: self.left.as_ref().map(|l| Box::new(l.skeleton())),
            right: self.right.as_ref().map(|r| Box::new(r.skeleton())),
        }
    }
}

/// Closed-form canonical shape of a key set: nodes = {root} ∪ K ∪ {lcp(a,b) | a,b ∈ K incomparable}.
pub fn canonical_shape(keys: &BTreeSet<Key>) -> Shape {
    let mut nodes: BTreeSet<Key> = keys.clone();
    nodes.insert(Key::ROOT);
    let kv: Vec<Key> = keys.iter().copied().collect();
    for i in 0..kv.len() {
        for j in (i + 1)..kv.len() {
            let (a, b) = (kv[i], kv[j]);
            if !covers(a, b) && !covers(b, a) {
                nodes.insert(lcp(a, b));
            }
        }
    }
    let nv: Vec<Key> = nodes.iter().copied().collect();
    build_shape(Key::ROOT, &nv, keys)
}

fn build_shape(at: Key, nodes: &[Key], keys: &BTreeSet<Key>) -> Shape {
    // children of `at`: nodes strictly covered by `at` whose parent (longest strict cover) is `at`
    let below: Vec<Key> = nodes
        .iter()
        .copied()
        .filter(|n| *n != at && covers(at, *n))
        .collect();
    let mut left = None;
    let mut right = None;
    for side in [false, true] {
        let cand: Vec<Key> = below
            .iter()
            .copied()
            .filter(|n| key_bit(*n, at.len as u32) == side)
            .collect();
        if cand.is_empty() {
            continue;
        }
        // the top-most one covers all others on that side (closure under lcp guarantees it)
        let top = *cand.iter().min_by_key(|n| n.len).unwrap();
        let sub = build_shape(top, &cand, keys);
        if side {
            right = Some(Box::new(sub));
        } else {
            left = Some(Box::new(sub));
        }
    }
    Shape {
        key: at,
        has_value: keys.contains(&at),
        left,
        right,
    }
}

/// Well-formedness of an observed shape; returns a description of the first problem.
pub fn shape_wellformed(s: &Shape, width: u8) -> Result<(), String> {
    if s.key != Key::ROOT {
        return Err(format!("root is {:?}, not the zero-length prefix", s.key));
    }
    fn rec(s: &Shape, depth: u32, width: u8) -> Result<(), String> {
        if depth > width as u32 + 1 {
            return Err(format!("path longer than width+1 at {:?}", s.key));
        }
        for (side, c) in [(false, &s.left), (true, &s.right)] {
            if let Some(c) = c {
                if c.key.len <= s.key.len {
                    return Err(format!("child {:?} not longer than parent {:?}", c.key, s.key));
                }
                if !covers(s.key, c.key) {
                    return Err(format!("child {:?} not covered by parent {:?}", c.key, s.key));
                }
                if key_bit(c.key, s.key.len as u32) != side {
                    return Err(format!(
                        "child {:?} on the wrong side ({}) of parent {:?}",
                        c.key,
                        if side { "right" } else { "left" },
                        s.key
                    ));
                }
                rec(c, depth + 1, width)?;
            }
        }
        Ok(())
    }
    rec(s, 1, width)
}

pub fn raw<P: TP>(p: &P) -> (u128, u8) {
    (p.raw_bits(), p.raw_len())
}

/// u128 <-> hex string, so replay files are readable and independent of JSON number limits.
pub mod hex128 {
    use serde::{Deserialize, Deserializer, Serializer};
    pub fn serialize<S: Serializer>(v: &u128, s: S) -> Result<S::Ok, S::Error> {
        s.serialize_str(&format!("{:032x}", v))
    }
    pub fn deserialize<'de, D: Deserializer<'de>>(d: D) -> Result<u128, D::Error> {
        let s = String::deserialize(d)?;
        u128::from_str_radix(&s, 16).map_err(serde::de::Error::custom)
    }
}
