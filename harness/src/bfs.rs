//! Engine 2: bounded-exhaustive breadth-first exploration of observable states on `(u8,u8)`
//! restricted to prefix lengths <= w. Every operation of a finite alphabet is applied with every
//! prefix of the sub-universe to every reachable state; all per-step oracles run on every transition.

use crate::engine::*;
use crate::env::{Env, Focus, Side, SV};
use crate::hist::{panic_to_fail, retag_panic};
use crate::interp::{step, World};
use crate::model::{Raw, Shape};
use crate::observe::shape_of;
use crate::ops::*;
use std::collections::{BTreeSet, HashMap};
use std::panic::{catch_unwind, AssertUnwindSafe};

type P = (u8, u8);

pub struct BfsSpec {
    pub id: &'static str,
    pub focus: Focus,
    pub accept: Vec<&'static str>,
    pub maxlen: u8,
    pub max_depth: usize,
    pub state_cap: usize,
    pub full_queries: bool,
    /// only the canonical sub-alphabet (insert-class, remove, retain, clear)
    pub canonical_only: bool,
    pub panic_ops: Vec<&'static str>,
}

fn sub_universe(maxlen: u8) -> Vec<Raw> {
    let mut v = Vec::new();
    for len in 0..=maxlen {
        for i in 0..(1u32 << len) {
            let bits = if len == 0 { 0 } else { (i as u128) << (128 - len as u32) };
            v.push(Raw { bits, len });
        }
    }
    v
}

/// derivation steps that make `build_universe` produce exactly `uni` for width 8
fn usteps_for(uni: &[Raw]) -> Vec<UStep> {
    uni.iter()
        .map(|r| {
            // kind 1: random address, scaled length: len = a * 9 >> 8
            let a = ((r.len as u32 * 256 + 8) / 9) as u8;
            debug_assert_eq!(((a as u32) * 9) >> 8, r.len as u32);
            UStep {
                kind: 1,
                parent: 0,
                a,
                bits: r.bits,
            }
        })
        .collect()
}

fn pref_for(idx: usize, n: usize) -> PRef {
    // smallest i with (i * n) >> 16 == idx
    let i = ((idx << 16) + n - 1) / n;
    debug_assert_eq!(map_idx(i as u16, n), idx);
    PRef { i: i as u16, noise: 0 }
}

fn alphabet(n: usize, canonical_only: bool) -> Vec<Op> {
    let mut ops = Vec::new();
    for idx in 0..n {
        let p = pref_for(idx, n);
        ops.push(Op::Insert { m: M::A, p });
        ops.push(Op::Remove { m: M::A, p });
        ops.push(Op::Entry {
            m: M::A,
            p,
            act: EntryAct::OrInsert { write: false },
        });
        if !canonical_only {
            ops.push(Op::RemoveKeepTree { m: M::A, p });
            ops.push(Op::RemoveChildren { m: M::A, p });
            ops.push(Op::Entry {
                m: M::A,
                p,
                act: EntryAct::Match {
                    vac: VacAct::Insert,
                    occ: vec![OccAct::Get, OccAct::Remove],
                },
            });
            ops.push(Op::ViewMut {
                m: M::A,
                nav: vec![Nav::At(p)],
                act: ViewAct::Set,
            });
            ops.push(Op::ViewMut {
                m: M::A,
                nav: vec![Nav::At(p)],
                act: ViewAct::Remove,
            });
        }
    }
    for pred in [Pred::LenLe(60), Pred::LenLe(90), Pred::HashBit(0), Pred::HashBit(1), Pred::HashBit(2), Pred::Nothing] {
        ops.push(Op::Retain { m: M::A, pred });
    }
    ops.push(Op::Clear { m: M::A });
    ops.push(Op::IterMut { m: M::A, mask: !0 });
    ops
}

#[derive(Clone, PartialEq, Eq, Hash)]
struct Key {
    shape: Shape,
    canonical: bool,
    drift: i64,
}

struct Node {
    side: Side<P, u64>,
    parent: usize,
    op: Option<Op>,
    depth: usize,
}

fn clone_side(s: &Side<P, u64>) -> Side<P, u64> {
    Side {
        map: s.map.clone(),
        model: s.model.clone(),
        canonical: s.canonical,
        drift: s.drift,
        peak_nodes: s.peak_nodes,
        name: s.name,
    }
}

fn path_to(nodes: &[Node], mut i: usize, last: &Op) -> Vec<Op> {
    let mut ops = vec![last.clone()];
    while let Some(op) = &nodes[i].op {
        ops.push(op.clone());
        i = nodes[i].parent;
    }
    ops.reverse();
    ops
}

pub fn run_bfs(spec: &BfsSpec) -> Outcome {
    let uni = sub_universe(spec.maxlen);
    let usteps = usteps_for(&uni);
    debug_assert_eq!(build_universe(&usteps, 8), uni);
    let ops = alphabet(uni.len(), spec.canonical_only);
    let known = known_sigs("*");
    let accept = Accept {
        props: spec.accept.clone(),
    };
    let mut o = Outcome::default();
    let mut nodes: Vec<Node> = Vec::new();
    let mut seen: HashMap<Key, usize> = HashMap::new();
    let root: Side<P, u64> = Side::new("A");
    seen.insert(
        Key {
            shape: shape_of(&root.map).unwrap(),
            canonical: true,
            drift: 0,
        },
        0,
    );
    nodes.push(Node {
        side: root,
        parent: 0,
        op: None,
        depth: 0,
    });
    let mut frontier: Vec<usize> = vec![0];
    let mut transitions = 0u64;
    let mut changing = 0u64;
    let mut fixpoint = false;
    let mut depth = 0;
    let threads = std::thread::available_parallelism().map(|n| n.get()).unwrap_or(4).min(16);
    while !frontier.is_empty() {
        if depth >= spec.max_depth || nodes.len() >= spec.state_cap {
            break;
        }
        depth += 1;
        // expand the frontier in parallel; each job returns its successor candidates
        let chunks: Vec<Vec<usize>> = frontier.chunks(((frontier.len() + threads - 1) / threads).max(1)).map(|c| c.to_vec()).collect();
        let results: std::sync::Mutex<Vec<(usize, usize, Result<(Key, Side<P, u64>), (crate::env::Fail, BTreeSet<String>)>)>> = std::sync::Mutex::new(Vec::new());
        let nodes_ref = &nodes;
        let ops_ref = &ops;
        let uni_ref = &uni;
        let known_ref = &known;
        std::thread::scope(|s| {
            for chunk in chunks {
                let results = &results;
                s.spawn(move || {
                    let mut local = Vec::new();
                    for ni in chunk {
                        for (oi, op) in ops_ref.iter().enumerate() {
                            let mut w: World<P, u64, SV> = World::new();
                            w.a = clone_side(&nodes_ref[ni].side);
                            let mut env = Env::new(spec.focus, uni_ref.clone());
                            env.known = known_ref.clone();
                            env.full_queries = spec.full_queries;
                            env.step = nodes_ref[ni].depth;
                            env.next_val = 1000 + 100 * nodes_ref[ni].depth as u64;
                            let r = catch_unwind(AssertUnwindSafe(|| step(&mut w, op, &mut env)));
                            let res = match r {
                                Ok(Ok(())) => match shape_of(&w.a.map) {
                                    Ok(shape) => Ok((
                                        Key {
                                            shape,
                                            canonical: w.a.canonical,
                                            drift: w.a.drift,
                                        },
                                        w.a,
                                    )),
                                    Err(f) => Err((f, env.known_hits.clone())),
                                },
                                Ok(Err(f)) => Err((f, env.known_hits.clone())),
                                Err(_) => match panic_to_fail(env.cur_op, env.step, w.a.drift != 0) {
                                    Ok(mut f) => {
                                        retag_panic(&mut f, spec.id, &spec.panic_ops);
                                        Err((f, env.known_hits.clone()))
                                    }
                                    Err(hb) => Err((
                                        crate::env::Fail {
                                            prop: "HARNESS",
                                            sig: "HARNESS".into(),
                                            msg: hb,
                                        },
                                        BTreeSet::new(),
                                    )),
                                },
                            };
                            local.push((ni, oi, res));
                        }
                    }
                    results.lock().unwrap().extend(local);
                });
            }
        });
        let mut results = results.into_inner().unwrap();
        results.sort_by_key(|(ni, oi, _)| (*ni, *oi));
        let mut next = Vec::new();
        for (ni, oi, res) in results {
            transitions += 1;
            match res {
                Ok((key, side)) => {
                    if key.drift.abs() > 1 {
                        // beyond the drift cap: the known finding repeated; not expanded further
                        *o.classes.entry("bfs_drift_cap".into()).or_insert(0) += 1;
                        continue;
                    }
                    let src_shape_changed = {
                        let src = &nodes[ni];
                        shape_of(&src.side.map).map(|s| s != key.shape).unwrap_or(true)
                    };
                    if src_shape_changed {
                        changing += 1;
                    }
                    if !seen.contains_key(&key) {
                        let idx = nodes.len();
                        seen.insert(key, idx);
                        nodes.push(Node {
                            side,
                            parent: ni,
                            op: Some(ops[oi].clone()),
                            depth,
                        });
                        next.push(idx);
                    }
                }
                Err((f, _hits)) => {
                    if f.prop == "HARNESS" {
                        o.harness_bug = Some(f.msg);
                        return o;
                    }
                    if f.sig == "C20:panic:count-underflow-after-view-write" {
                        *o.classes.entry("bfs_known_consequence".into()).or_insert(0) += 1;
                        continue;
                    }
                    if accept.accepts(&f) && !known.contains(&f.sig) {
                        if o.violation.is_none() {
                            let path = path_to(&nodes, ni, &ops[oi]);
                            let case = Case {
                                ptype: "u8".into(),
                                usteps: usteps.clone(),
                                ops: path,
                                extra: vec![],
                            };
                            let replay = write_replay(spec.id, &format!("{}-bfs-w{}", spec.id, spec.maxlen), 0, &case, f.prop, &f.sig, &f.msg);
                            o.violation = Some(Violation {
                                prop: f.prop.to_string(),
                                sig: f.sig.clone(),
                                msg: f.msg.clone(),
                                replay,
                            });
                        }
                    } else {
                        *o.aborted_foreign.entry(format!("{}:{}", f.prop, f.sig)).or_insert(0) += 1;
                    }
                }
            }
        }
        if o.violation.is_some() {
            break;
        }
        frontier = next;
        if frontier.is_empty() {
            fixpoint = true;
        }
    }
    o.evaluations = transitions;
    o.counted_nontrivial = changing;
    o.exhaustive = fixpoint && o.violation.is_none();
    o.classes.insert(format!("bfs_w{}_states", spec.maxlen), nodes.len() as u64);
    o.classes.insert(format!("bfs_w{}_transitions", spec.maxlen), transitions);
    o.classes.insert(format!("bfs_w{}_depth", spec.maxlen), depth as u64);
    o.classes.insert(format!("bfs_w{}_fixpoint", spec.maxlen), fixpoint as u64);
    o.extra.insert(
        format!("bfs_w{}", spec.maxlen),
        serde_json::json!({"states": nodes.len(), "transitions": transitions, "depth": depth, "fixpoint_reached": fixpoint, "alphabet": ops.len(), "prefixes": uni.len(), "canonical_sub_alphabet_only": spec.canonical_only}),
    );
    if o.samples.is_empty() && nodes.len() > 3 {
        let i = nodes.len() / 2;
        let path = if let Some(op) = &nodes[i].op { path_to(&nodes, nodes[i].parent, op) } else { vec![] };
        o.samples.push(format!("BFS state {} (depth {}): shape {} reached by {:?}", i, nodes[i].depth, shape_of(&nodes[i].side.map).map(|s| s.show()).unwrap_or_default(), path));
    }
    o
}
