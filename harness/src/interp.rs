//! The history interpreter: applies each generated operation to the real map(s) and the model(s)
//! in lock-step, checks every return value, and runs the observers after every step.

use crate::ensure;
use crate::env::{fail, Env, Side, Val, R};
use crate::model::{covers, key_of, mk, raw_of, Key, Model, Raw};
use crate::observe::{iter_limit, observe, shape_of};
use crate::ops::*;
use crate::tp::TP;
use prefix_trie::map::Entry;
use prefix_trie::{AsView, AsViewMut, PrefixMap, TrieViewMut};

pub struct World<P: TP, VA: Val, VB: Val> {
    pub a: Side<P, VA>,
    pub b: Side<P, VB>,
}

impl<P: TP, VA: Val, VB: Val> World<P, VA, VB> {
    pub fn new() -> Self {
        World {
            a: Side::new("A"),
            b: Side::new("B"),
        }
    }
}

fn rs<P: TP>(env: &Env, p: PRef) -> (P, Raw) {
    let r = resolve(&env.uni, p, P::W);
    let pp: P = mk(r);
    let r2 = raw_of(&pp);
    (pp, r2)
}

pub fn eval_pred(pred: &Pred, env_uni: &[Raw], w: u8, k: Key, v: u64) -> bool {
    match pred {
        Pred::HashBit(s) => splitmix(k.net as u64 ^ (k.net >> 64) as u64 ^ ((k.len as u64) << 56) ^ v ^ ((*s as u64) << 32)) & 1 == 1,
        Pred::LenLe(l) => (k.len as u32) * 256 <= (*l as u32) * (w as u32 + 1),
        Pred::CoveredBy(p) => covers(resolve(env_uni, *p, w).key(), k),
        Pred::NotCoveredBy(p) => !covers(resolve(env_uni, *p, w).key(), k),
        Pred::All => true,
        Pred::Nothing => false,
    }
}

/// The drift bookkeeping for the known finding "writes through TrieViewMut do not update len()".
fn view_count_drift<P: TP, V: Val>(side: &mut Side<P, V>, env: &mut Env, sig: &str, delta: i64) {
    if env.tolerate(sig) {
        side.drift += delta;
        if env.stop_on_taint {
            env.stopped_on_taint = true;
        }
    }
    // if not tolerated, drift stays as it is and the C04 observer (if in focus) reports it
}

/// Navigate a mutable view. `None` when the view was lost (`view_mut_at` failed or split side absent).
pub fn nav_mut<'a, P: TP, V: Val>(
    mut v: TrieViewMut<'a, P, V>,
    nav: &[Nav],
    env: &mut Env,
) -> Option<(TrieViewMut<'a, P, V>, Key)> {
    // `scope`: the view addresses exactly the entries under `scope`. A search with a prefix that
    // covers the current view yields a view labelled with that (shorter) prefix over the same
    // entries, so the label of a view obtained from a sub-view is not necessarily its scope.
    let mut scope = key_of(v.prefix());
    for n in nav {
        let k = key_of(v.prefix());
        if covers(scope, k) {
            scope = k;
        }
        v = match n {
            Nav::At(_) | Nav::AtCut(..) | Nav::AtRaw(_) => {
                let q: P = match n {
                    Nav::AtRaw(r) => mk(*r),
                    Nav::AtCut(p, k) => mk(resolve_cut(&env.uni, *p, *k, P::W)),
                    Nav::At(p) => rs::<P>(env, *p).0,
                    _ => unreachable!(),
                };
                env.cur_op = "view_mut_at";
                match v.view_mut_at(q) {
                    Some(x) => x,
                    None => {
                        env.ev("nav_lost");
                        return None;
                    }
                }
            }
            Nav::Find(p) => {
                let (q, _) = rs::<P>(env, *p);
                env.cur_op = "view_mut.find";
                match v.find(q) {
                    Ok(x) => {
                        env.ev("nav_find_ok");
                        x
                    }
                    Err(x) => x,
                }
            }
            Nav::FindExact(p) => {
                let (q, _) = rs::<P>(env, *p);
                env.cur_op = "view_mut.find_exact";
                match v.find_exact(&q) {
                    Ok(x) => x,
                    Err(x) => x,
                }
            }
            Nav::FindLpm(p) => {
                let (q, _) = rs::<P>(env, *p);
                env.cur_op = "view_mut.find_lpm";
                match v.find_lpm(&q) {
                    Ok(x) => x,
                    Err(x) => x,
                }
            }
            Nav::Left => {
                env.cur_op = "view_mut.left";
                match v.left() {
                    Ok(x) => x,
                    Err(x) => x,
                }
            }
            Nav::Right => {
                env.cur_op = "view_mut.right";
                match v.right() {
                    Ok(x) => x,
                    Err(x) => x,
                }
            }
            Nav::SplitLeft => {
                env.cur_op = "view_mut.split";
                match v.split().0 {
                    Some(x) => x,
                    None => {
                        env.ev("nav_lost");
                        return None;
                    }
                }
            }
            Nav::SplitRight => {
                env.cur_op = "view_mut.split";
                match v.split().1 {
                    Some(x) => x,
                    None => {
                        env.ev("nav_lost");
                        return None;
                    }
                }
            }
        };
    }
    let k = key_of(v.prefix());
    if covers(scope, k) {
        scope = k;
    }
    Some((v, scope))
}

fn write_refs<'x, P: TP, V: Val>(
    what: &'static str,
    refs: Vec<(&'x P, &'x mut V)>,
    mask: u64,
    model: &mut Model,
    env: &mut Env,
) -> R {
    // all references are alive here at the same time; write through the selected ones
    let mut seen = std::collections::BTreeSet::new();
    for (i, (p, v)) in refs.into_iter().enumerate() {
        let k = key_of(p);
        ensure!(
            seen.insert(k),
            "C13",
            format!("C13:{what}:duplicate"),
            "step {}: {what} yields {:?} twice",
            env.step,
            k
        );
        let Some(st) = model.m.get_mut(&k) else {
            return fail(
                "C13",
                &format!("C13:{what}:foreign-key"),
                format!("step {}: {what} yields {:?} which is not stored", env.step, k),
            );
        };
        ensure!(
            st.value == v.id(),
            "C13",
            format!("C13:{what}:value"),
            "step {}: {what} yields {:?} with value {} but the entry holds {}",
            env.step,
            k,
            v.id(),
            st.value
        );
        if (mask >> (i % 64)) & 1 == 1 {
            let nv = env.fresh();
            *v = V::mk(nv);
            st.value = nv;
            env.ev("write_through_ref");
        }
    }
    Ok(())
}

fn cmp_seq(
    prop: &'static str,
    what: &str,
    step: usize,
    got: &[(Key, u64)],
    want: &[(Key, u64)],
) -> R {
    ensure!(
        got == want,
        prop,
        format!("{prop}:{what}"),
        "step {step}: {what} yields {:?}, expected {:?}",
        got,
        want
    );
    Ok(())
}

/// Apply an operation that touches a single map.
pub fn apply_single<P: TP, V: Val>(side: &mut Side<P, V>, op: &Op, env: &mut Env) -> R {
    let step = env.step;
    match op {
        Op::Insert { p, .. } => {
            let (pp, r) = rs::<P>(env, *p);
            let v = env.fresh();
            let existed = side.model.get(r.key()).is_some();
            env.cur_op = "insert";
            let got = side.map.insert(pp, V::mk(v)).map(|x| x.id());
            let want = side.model.insert(r, v);
            ensure!(got == want, "C01", "C01:insert:return", "step {step}: insert({:?}) returned {:?}, model {:?}", r.key(), got, want);
            env.ev(if existed { "insert_existing" } else { "insert_new" });
            if env.has_ev("removed_hit") {
                env.ev("insert_after_remove");
            }
            if r.len == 0 || r.len == 1 || r.len == P::W || r.len == P::W - 1 {
                env.ev("boundary_len");
            }
        }
        Op::Remove { p, .. } => {
            let (pp, r) = rs::<P>(env, *p);
            env.cur_op = "remove";
            let nodes_before = if env.focus.has(15) || env.focus.has(16) { shape_of(&side.map).map(|s| s.count()).unwrap_or(0) } else { 0 };
            let got = side.map.remove(&pp).map(|x| x.id());
            let want = side.model.remove(r.key());
            ensure!(got == want, "C01", "C01:remove:return", "step {step}: remove({:?}) returned {:?}, model {:?}", r.key(), got, want);
            if want.is_some() {
                env.ev("removed_hit");
                env.ev("remove_hit");
                if env.focus.has(15) || env.focus.has(16) {
                    let after = shape_of(&side.map).map(|s| s.count()).unwrap_or(0);
                    if nodes_before >= after + 2 {
                        env.ev("collapse");
                    }
                }
            }
        }
        Op::RemoveKeepTree { p, .. } => {
            let (pp, r) = rs::<P>(env, *p);
            env.cur_op = "remove_keep_tree";
            let before = if env.focus.has(15) { Some(shape_of(&side.map)?.skeleton()) } else { None };
            let got = side.map.remove_keep_tree(&pp).map(|x| x.id());
            let want = side.model.remove(r.key());
            ensure!(got == want, "C01", "C01:remove_keep_tree:return", "step {step}: remove_keep_tree({:?}) returned {:?}, model {:?}", r.key(), got, want);
            if want.is_some() {
                env.ev("removed_hit");
                env.ev("keep_tree_hit");
                env.ev("leftover_created");
                side.canonical = false;
            }
            if let Some(b) = before {
                let after = shape_of(&side.map)?.skeleton();
                ensure!(b == after, "C15", "C15:remove_keep_tree:shape", "step {step}: remove_keep_tree({:?}) changed the shape from {} to {}", r.key(), b.show(), after.show());
            }
        }
        Op::RemoveChildren { p, .. } => {
            let (pp, r) = rs::<P>(env, *p);
            let sel = r.key();
            let gone = side.model.children_keys(sel);
            env.cur_op = "remove_children";
            side.map.remove_children(&pp);
            for k in &gone {
                side.model.remove(*k);
            }
            if !gone.is_empty() {
                env.ev("removed_hit");
                env.ev("remove_children_hit");
                if !side.model.m.is_empty() {
                    env.ev("remove_children_strict_subset");
                }
            }
            if sel.len == 0 {
                // documented: a zero-length prefix empties the map (same as clear); the map object stays the
                // same, so the largest number of nodes it ever needed (peak) is kept
                side.canonical = true;
                side.drift = 0;
            } else {
                side.canonical = false;
            }
            // contents are compared by the baseline observer: exactly `gone` must have vanished
            let got = crate::observe::contents(&side.map, iter_limit(&side.model))?;
            let gk: Vec<(Key, u64)> = got.iter().map(|(r, v)| (r.key(), *v)).collect();
            let wk: Vec<(Key, u64)> = side.model.seq().iter().map(|(k, _, v)| (*k, *v)).collect();
            ensure!(gk == wk, "C10", "C10:remove_children", "step {step}: after remove_children({:?}) the map holds {:?}, expected {:?}", sel, gk, wk);
        }
        Op::Retain { pred, .. } => {
            let before: Vec<(Key, u64)> = side.model.seq().iter().map(|(k, _, v)| (*k, *v)).collect();
            let mut calls: Vec<(Key, u64)> = Vec::new();
            let uni = env.uni.clone();
            env.cur_op = "retain";
            side.map.retain(|p, v| {
                let k = key_of(p);
                calls.push((k, v.id()));
                eval_pred(pred, &uni, P::W, k, v.id())
            });
            let mut sorted = calls.clone();
            sorted.sort();
            ensure!(sorted == before, "C10", "C10:retain:calls", "step {step}: retain called its predicate on {:?}, entries were {:?}", calls, before);
            let mut removed = 0;
            for (k, v) in &before {
                if !eval_pred(pred, &uni, P::W, *k, *v) {
                    side.model.remove(*k);
                    removed += 1;
                }
            }
            if removed > 0 {
                env.ev("removed_hit");
                env.ev("retain_removed");
                if removed < before.len() {
                    env.ev("retain_nonconstant");
                }
                if removed >= 2 {
                    env.ev("retain_removed_ge2");
                }
            }
            let got = crate::observe::contents(&side.map, iter_limit(&side.model))?;
            let gk: Vec<(Key, u64)> = got.iter().map(|(r, v)| (r.key(), *v)).collect();
            let wk: Vec<(Key, u64)> = side.model.seq().iter().map(|(k, _, v)| (*k, *v)).collect();
            ensure!(gk == wk, "C10", "C10:retain:result", "step {step}: after retain({:?}) the map holds {:?}, expected {:?}", pred, gk, wk);
        }
        Op::Clear { .. } => {
            env.cur_op = "clear";
            side.map.clear();
            side.model.m.clear();
            side.canonical = true;
            side.drift = 0;
            env.ev("clear");
        }
        Op::Entry { p, act, .. } => apply_entry(side, *p, act, env)?,
        Op::GetMut { p, .. } => {
            let (pp, r) = rs::<P>(env, *p);
            env.cur_op = "get";
            let ro = side.map.get(&pp).map(|v| v.id());
            env.cur_op = "get_mut";
            let got = side.map.get_mut(&pp);
            ensure!(got.as_ref().map(|v| v.id()) == ro, "C13", "C13:get_mut vs get", "step {step}: get_mut({:?}) = {:?} but get = {:?}", r.key(), got.as_ref().map(|v| v.id()), ro);
            let want = side.model.m.get_mut(&r.key());
            ensure!(got.as_ref().map(|v| v.id()) == want.as_ref().map(|s| s.value), "C01", "C01:get_mut", "step {step}: get_mut({:?}) = {:?}, model {:?}", r.key(), got.as_ref().map(|v| v.id()), want.as_ref().map(|s| s.value));
            if let (Some(g), Some(w)) = (got, want) {
                let nv = env.fresh();
                *g = V::mk(nv);
                w.value = nv;
                env.ev("write_through_ref");
            }
        }
        Op::GetLpmMut { p, .. } => {
            let (pp, r) = rs::<P>(env, *p);
            env.cur_op = "get_lpm_mut";
            let want = side.model.lpm(r.key()).map(|(k, s)| (k, s.repr, s.value));
            env.cur_op = "get_lpm";
            let ro = side.map.get_lpm(&pp).map(|(p, v)| (raw_of(p), v.id()));
            env.cur_op = "get_lpm_mut";
            let got = side.map.get_lpm_mut(&pp);
            let gr = got.as_ref().map(|(p, v)| (raw_of(*p), v.id()));
            ensure!(gr == ro, "C13", "C13:get_lpm_mut vs get_lpm", "step {step}: get_lpm_mut({:?}) = {:?} but get_lpm = {:?}", r.key(), gr.map(|x| (x.0.key(), x.1)), ro.map(|x| (x.0.key(), x.1)));
            let g = got.as_ref().map(|(p, v)| (key_of(*p), v.id()));
            ensure!(g == want.map(|w| (w.0, w.2)), "C02", "C02:get_lpm_mut", "step {step}: get_lpm_mut({:?}) = {:?}, model {:?}", r.key(), g, want);
            if let (Some((gp, gv)), Some((k, repr, _))) = (got, want) {
                if env.focus.has(18) {
                    ensure!(gp.raw_bits() == repr, "C18", "C18:get_lpm_mut:repr", "step {step}: get_lpm_mut reports {:?} with bits {:x}, stored {:x}", k, gp.raw_bits(), repr);
                }
                let nv = env.fresh();
                *gv = V::mk(nv);
                side.model.m.get_mut(&k).unwrap().value = nv;
                env.ev("write_through_ref");
            }
        }
        Op::IterMut { mask, .. } => {
            let lim = iter_limit(&side.model);
            env.cur_op = "iter";
            let ro: Vec<(Raw, u64)> = side.map.iter().take(lim).map(|(p, v)| (raw_of(p), v.id())).collect();
            env.cur_op = "iter_mut";
            let refs: Vec<(&P, &mut V)> = side.map.iter_mut().take(lim).collect();
            let mu: Vec<(Raw, u64)> = refs.iter().map(|(p, v)| (raw_of(*p), v.id())).collect();
            ensure!(mu == ro, "C13", "C13:iter_mut vs iter", "step {step}: iter_mut yields {:?}, iter yields {:?}", mu.iter().map(|x| (x.0.key(), x.1)).collect::<Vec<_>>(), ro.iter().map(|x| (x.0.key(), x.1)).collect::<Vec<_>>());
            if refs.len() >= 2 {
                env.ev("mut_traversal_ge2");
            }
            write_refs("iter_mut", refs, *mask, &mut side.model, env)?;
        }
        Op::ValuesMut { mask, .. } => {
            let lim = iter_limit(&side.model);
            env.cur_op = "values";
            let ro: Vec<u64> = side.map.values().take(lim).map(|v| v.id()).collect();
            env.cur_op = "values_mut";
            let refs: Vec<&mut V> = side.map.values_mut().take(lim).collect();
            let mu: Vec<u64> = refs.iter().map(|v| v.id()).collect();
            ensure!(mu == ro, "C13", "C13:values_mut vs values", "step {step}: values_mut yields {:?}, values {:?}", mu, ro);
            let keys = side.model.keys();
            ensure!(keys.len() == refs.len(), "C13", "C13:values_mut:count", "step {step}: values_mut yields {} refs for {} entries", refs.len(), keys.len());
            for (i, (v, k)) in refs.into_iter().zip(keys).enumerate() {
                if (mask >> (i % 64)) & 1 == 1 {
                    let nv = env.fresh();
                    *v = V::mk(nv);
                    side.model.m.get_mut(&k).unwrap().value = nv;
                    env.ev("write_through_ref");
                }
            }
        }
        Op::ChildrenMut { p, mask, .. } => {
            let (pp, r) = rs::<P>(env, *p);
            let lim = iter_limit(&side.model);
            env.cur_op = "children";
            let ro: Vec<(Key, u64)> = side.map.children(&pp).take(lim).map(|(p, v)| (key_of(p), v.id())).collect();
            let want: Vec<(Key, u64)> = side.model.children(r.key()).into_iter().map(|(k, s)| (k, s.value)).collect();
            cmp_seq("C10", "children", step, &ro, &want)?;
            env.cur_op = "children_mut";
            let refs: Vec<(&P, &mut V)> = side.map.children_mut(&pp).take(lim).collect();
            let mu: Vec<(Key, u64)> = refs.iter().map(|(p, v)| (key_of(*p), v.id())).collect();
            cmp_seq("C13", "children_mut vs children", step, &mu, &ro)?;
            if refs.len() >= 2 && refs.len() < side.model.len() {
                env.ev("mut_traversal_strict_subset");
            }
            write_refs("children_mut", refs, *mask, &mut side.model, env)?;
        }
        Op::ViewMut { nav, act, .. } => apply_view_mut(side, nav, act, env)?,
        Op::CloneSwap { .. } => {
            env.cur_op = "clone";
            let c = side.map.clone();
            let old = std::mem::replace(&mut side.map, c);
            // the original must still hold the model's entries
            let got: Vec<(Key, u64)> = old.iter().take(iter_limit(&side.model)).map(|(p, v)| (key_of(p), v.id())).collect();
            let wk: Vec<(Key, u64)> = side.model.seq().iter().map(|(k, _, v)| (*k, *v)).collect();
            ensure!(got == wk, "C19", "C19:clone:original-changed", "step {step}: original differs from model after clone()");
            ensure!(old.len() == side.map.len(), "C04", "C04:clone:len", "step {step}: clone().len() = {} but original has {}", side.map.len(), old.len());
            env.ev("clone_swap");
        }
        Op::Collect { .. } => {
            env.cur_op = "collect";
            let new: PrefixMap<P, V> = side.map.iter().take(iter_limit(&side.model)).map(|(p, v)| (p.clone(), v.clone())).collect();
            side.map = new;
            side.canonical = true;
            side.drift = 0;
            side.peak_nodes = 1;
            env.ev("collect");
        }
        Op::FromIter { items, .. } => {
            let mut pairs = Vec::new();
            let mut model = Model::new();
            for it in items {
                let (pp, r) = rs::<P>(env, *it);
                let v = env.fresh();
                if model.insert(r, v).is_some() {
                    env.ev("from_iter_duplicate_key");
                }
                pairs.push((pp, V::mk(v)));
            }
            env.cur_op = "from_iter";
            side.map = PrefixMap::from_iter(pairs);
            side.model = model;
            side.canonical = true;
            side.drift = 0;
            side.peak_nodes = 1;
            env.ev("from_iter");
        }
        Op::BulkInsert { under, n, seed, .. } => {
            let (_, base) = rs::<P>(env, *under);
            let mut s = *seed;
            env.cur_op = "insert";
            let mut new = 0;
            for _ in 0..*n {
                s = splitmix(s);
                let extra = 1 + (s % 18) as u8;
                let len = (base.len as u32 + extra as u32).min(P::W as u32) as u8;
                s = splitmix(s);
                let rnd = ((s as u128) << 64) | splitmix(s ^ 0x9E37) as u128;
                let m = crate::tp::len_mask(base.len);
                let bits = ((base.bits & m) | (rnd & !m)) & crate::tp::width_mask(P::W);
                let p: P = P::make(bits, len);
                let r = raw_of(&p);
                let v = env.fresh();
                let got = side.map.insert(p, V::mk(v)).map(|x| x.id());
                let want = side.model.insert(r, v);
                ensure!(got == want, "C01", "C01:insert:return", "step {step}: insert({:?}) returned {:?}, model {:?}", r.key(), got, want);
                if want.is_none() {
                    new += 1;
                }
            }
            env.evn("bulk_inserted_new", new);
            if side.model.len() >= 256 {
                env.ev("model_ge256");
            }
        }
        Op::ChainInsert { along, seed, .. } => {
            let (_, base) = rs::<P>(env, *along);
            // address: the base prefix extended by seed-derived bits
            let mut s = *seed;
            s = splitmix(s);
            let rnd = ((s as u128) << 64) | splitmix(s ^ 0x51) as u128;
            let m = crate::tp::len_mask(base.len);
            let addr = ((base.bits & m) | (rnd & !m)) & crate::tp::width_mask(P::W);
            let mut lens: Vec<u8> = (0..=P::W).collect();
            // order: ascending, descending or shuffled
            match s % 3 {
                0 => {}
                1 => lens.reverse(),
                _ => {
                    for i in (1..lens.len()).rev() {
                        s = splitmix(s);
                        lens.swap(i, (s % (i as u64 + 1)) as usize);
                    }
                }
            }
            env.cur_op = "insert";
            for len in lens {
                let p: P = P::make(addr, len);
                let r = raw_of(&p);
                let v = env.fresh();
                let got = side.map.insert(p, V::mk(v)).map(|x| x.id());
                let want = side.model.insert(r, v);
                ensure!(got == want, "C01", "C01:insert:return", "step {step}: insert({:?}) returned {:?}, model {:?}", r.key(), got, want);
                env.uni.push(Raw { bits: addr, len });
            }
            env.ev("chain_full_depth");
        }
        Op::SetOpMut { .. } => unreachable!(),
    }
    env.cur_op = "";
    Ok(())
}

fn apply_entry<P: TP, V: Val>(side: &mut Side<P, V>, p: PRef, act: &EntryAct, env: &mut Env) -> R {
    let step = env.step;
    let (pp, r) = rs::<P>(env, p);
    let k = r.key();
    let cur = side.model.get(k).cloned();
    let qbits = r.bits;
    // is there a value-less node exactly at k? (interesting path: vacant entry on an existing node)
    env.ev(if cur.is_some() { "entry_occupied" } else { "entry_vacant" });
    env.cur_op = "entry";
    match act {
        EntryAct::Insert => {
            let v = env.fresh();
            env.cur_op = "entry.insert";
            let got = side.map.entry(pp).insert(V::mk(v)).map(|x| x.id());
            let want = side.model.insert(r, v);
            ensure!(got == want, "C01", "C01:entry.insert:return", "step {step}: entry({:?}).insert returned {:?}, model {:?}", k, got, want);
        }
        EntryAct::OrInsert { write } | EntryAct::OrInsertWith { write } | EntryAct::OrDefault { write } => {
            let v = env.fresh();
            let name: &'static str = match act {
                EntryAct::OrInsert { .. } => "entry.or_insert",
                EntryAct::OrInsertWith { .. } => "entry.or_insert_with",
                _ => "entry.or_default",
            };
            env.cur_op = name;
            let mut called = false;
            let e = side.map.entry(pp);
            let got: &mut V = match act {
                EntryAct::OrInsert { .. } => e.or_insert(V::mk(v)),
                EntryAct::OrInsertWith { .. } => e.or_insert_with(|| {
                    called = true;
                    V::mk(v)
                }),
                _ => e.or_default(),
            };
            let expect = match (&cur, act) {
                (Some(s), _) => s.value,
                (None, EntryAct::OrDefault { .. }) => 0,
                (None, _) => v,
            };
            ensure!(got.id() == expect, "C01", format!("C01:{name}:resident"), "step {step}: {name}({:?}) returned a reference to {}, resident value is {}", k, got.id(), expect);
            if let EntryAct::OrInsertWith { .. } = act {
                ensure!(called == cur.is_none(), "C01", "C01:or_insert_with:called", "step {step}: or_insert_with closure called = {called} with entry present = {}", cur.is_some());
            }
            if cur.is_none() {
                side.model.insert(r, expect);
            } else {
                env.ev("or_insert_on_occupied");
            }
            if *write {
                let nv = env.fresh();
                *got = V::mk(nv);
                side.model.m.get_mut(&k).unwrap().value = nv;
                env.ev("write_through_ref");
            }
        }
        EntryAct::AndModifyOrInsert => {
            let v1 = env.fresh();
            let v2 = env.fresh();
            env.cur_op = "entry.and_modify";
            let mut called = false;
            let got = side
                .map
                .entry(pp)
                .and_modify(|x| {
                    called = true;
                    *x = V::mk(v1)
                })
                .or_insert(V::mk(v2));
            let expect = if cur.is_some() { v1 } else { v2 };
            ensure!(called == cur.is_some(), "C01", "C01:and_modify:called", "step {step}: and_modify closure called = {called}, entry present = {}", cur.is_some());
            ensure!(got.id() == expect, "C01", "C01:and_modify.or_insert", "step {step}: and_modify().or_insert() on {:?} gives {}, expected {}", k, got.id(), expect);
            if cur.is_some() {
                side.model.m.get_mut(&k).unwrap().value = v1;
            } else {
                side.model.insert(r, v2);
            }
        }
        EntryAct::AndModifyGet => {
            let v1 = env.fresh();
            env.cur_op = "entry.and_modify";
            let e = side.map.entry(pp).and_modify(|x| *x = V::mk(v1));
            let got = e.get().map(|x| x.id());
            let expect = cur.as_ref().map(|_| v1);
            ensure!(got == expect, "C01", "C01:and_modify.get", "step {step}: and_modify().get() on {:?} gives {:?}, expected {:?}", k, got, expect);
            if cur.is_some() {
                side.model.m.get_mut(&k).unwrap().value = v1;
            }
        }
        EntryAct::Get => {
            let e = side.map.entry(pp);
            let got = e.get().map(|x| x.id());
            ensure!(got == cur.as_ref().map(|s| s.value), "C01", "C01:entry.get", "step {step}: entry({:?}).get() = {:?}, model {:?}", k, got, cur);
        }
        EntryAct::GetMutWrite => {
            let mut e = side.map.entry(pp);
            let got = e.get_mut();
            ensure!(got.as_ref().map(|x| x.id()) == cur.as_ref().map(|s| s.value), "C01", "C01:entry.get_mut", "step {step}: entry({:?}).get_mut() mismatch", k);
            if let Some(g) = got {
                let nv = env.fresh();
                *g = V::mk(nv);
                side.model.m.get_mut(&k).unwrap().value = nv;
                env.ev("write_through_ref");
            }
        }
        EntryAct::Key => {
            let e = side.map.entry(pp);
            let got = raw_of(e.key());
            ensure!(got.key() == k, "C01", "C01:entry.key", "step {step}: entry({:?}).key() = {:?}", k, got.key());
            if env.focus.has(18) {
                if let Some(s) = cur.as_ref() {
                    ensure!(got.bits == s.repr, "C18", "C18:entry.key:repr", "step {step}: entry({:?}).key() of an occupied entry has bits {:x}, stored representation {:x} (query {:x})", k, got.bits, s.repr, qbits);
                }
            }
        }
        EntryAct::Match { vac, occ } => {
            env.ev("entry_match");
            match side.map.entry(pp) {
                Entry::Vacant(e) => {
                    ensure!(cur.is_none(), "C01", "C01:entry.variant", "step {step}: entry({:?}) is Vacant but the key is stored", k);
                    let v = env.fresh();
                    match vac {
                        VacAct::Key => {
                            let got = raw_of(e.key());
                            ensure!(got.key() == k, "C01", "C01:vacant.key", "step {step}: VacantEntry::key() = {:?}", got);
                        }
                        VacAct::Insert | VacAct::InsertWith | VacAct::Default => {
                            env.cur_op = "vacant.insert";
                            let (got, expect) = match vac {
                                VacAct::Insert => (e.insert(V::mk(v)), v),
                                VacAct::InsertWith => (e.insert_with(|| V::mk(v)), v),
                                _ => (e.default(), 0),
                            };
                            ensure!(got.id() == expect, "C01", "C01:vacant.insert:resident", "step {step}: VacantEntry insertion returned a reference to {}, expected {}", got.id(), expect);
                            side.model.insert(r, expect);
                            env.ev("vacant_insert");
                        }
                    }
                }
                Entry::Occupied(mut e) => {
                    let Some(mut st) = cur.clone() else {
                        return fail("C01", "C01:entry.variant", format!("step {step}: entry({:?}) is Occupied but the key is absent", k));
                    };
                    let mut ncalls = 0;
                    for a in occ {
                        ncalls += 1;
                        match a {
                            OccAct::Get => {
                                env.cur_op = "occupied.get";
                                ensure!(e.get().id() == st.value, "C01", "C01:occupied.get", "step {step}: OccupiedEntry::get() = {}, model {}", e.get().id(), st.value);
                            }
                            OccAct::GetMutWrite => {
                                env.cur_op = "occupied.get_mut";
                                let g = e.get_mut();
                                ensure!(g.id() == st.value, "C01", "C01:occupied.get_mut", "step {step}: OccupiedEntry::get_mut() = {}, model {}", g.id(), st.value);
                                let nv = env.fresh();
                                *g = V::mk(nv);
                                st.value = nv;
                                side.model.m.get_mut(&k).unwrap().value = nv;
                            }
                            OccAct::Key => {
                                env.cur_op = "occupied.key";
                                let got = raw_of(e.key());
                                ensure!(got.key() == k, "C01", "C01:occupied.key", "step {step}: OccupiedEntry::key() = {:?}", got.key());
                                if env.focus.has(18) {
                                    ensure!(got.bits == st.repr, "C18", "C18:occupied.key:repr", "step {step}: OccupiedEntry::key() has bits {:x}, stored representation {:x}, query {:x}", got.bits, st.repr, qbits);
                                }
                            }
                            OccAct::Insert => {
                                env.cur_op = "occupied.insert";
                                let nv = env.fresh();
                                let old = e.insert(V::mk(nv)).id();
                                ensure!(old == st.value, "C01", "C01:occupied.insert:return", "step {step}: OccupiedEntry::insert returned {}, model {}", old, st.value);
                                side.model.insert(r, nv);
                                env.ev("occupied_insert");
                                break;
                            }
                            OccAct::Remove => {
                                env.cur_op = "occupied.remove";
                                let old = e.remove().id();
                                ensure!(old == st.value, "C01", "C01:occupied.remove:return", "step {step}: OccupiedEntry::remove returned {}, model {}", old, st.value);
                                side.model.remove(k);
                                side.canonical = false;
                                env.ev("removed_hit");
                                env.ev("occupied_remove");
                                env.ev("leftover_created");
                                // OccupiedEntry::remove consumes the handle (since the fix of finding P4)
                                break;
                            }
                        }
                    }
                    if ncalls >= 2 {
                        env.ev("handle_seq_ge2");
                    }
                }
            }
        }
    }
    env.cur_op = "";
    Ok(())
}

fn apply_view_mut<P: TP, V: Val>(side: &mut Side<P, V>, nav: &[Nav], act: &ViewAct, env: &mut Env) -> R {
    let step = env.step;
    let lim = iter_limit(&side.model);
    let Side { map, model, canonical, .. } = side;
    env.cur_op = "view_mut";
    let Some((mut v, scope)) = nav_mut(map.view_mut(), nav, env) else {
        return Ok(());
    };
    let vr = raw_of(v.prefix());
    let vk = vr.key();
    // the view's own entry exists only if its label lies within its scope
    let cur = if vk == scope { model.get(vk).cloned() } else { None };
    if vk != scope {
        env.ev("view_label_above_scope");
    }
    let mut drift: Option<(&'static str, i64)> = None;
    match act {
        ViewAct::Nothing => {
            let got = v.value().map(|x| x.id());
            ensure!(got == cur.as_ref().map(|s| s.value), "C11", "C11:view_mut.value", "step {step}: view_mut at {:?} has value {:?}, model {:?}", vk, got, cur);
        }
        ViewAct::Set => {
            let nv = env.fresh();
            env.cur_op = "view_mut.set";
            match v.set(V::mk(nv)) {
                Ok(prev) => {
                    let prev = prev.map(|x| x.id());
                    ensure!(prev == cur.as_ref().map(|s| s.value), "C01", "C01:view_mut.set:return", "step {step}: TrieViewMut::set at {:?} returned {:?}, model {:?}", vk, prev, cur);
                    if cur.is_some() {
                        model.m.get_mut(&vk).unwrap().value = nv;
                        env.ev("view_set_existing");
                    } else {
                        ensure!(vk == scope, "C11", "C11:view_mut.set:ok-on-label-above-scope", "step {step}: set succeeded on a view labelled {:?} above its scope {:?}", vk, scope);
                        // documented exception: the entry keeps the node's existing prefix
                        model.insert(vr, nv);
                        env.ev("view_set_on_valueless");
                        drift = Some(("C04:len:view_mut.set-on-valueless-node", -1));
                    }
                }
                Err(back) => {
                    ensure!(back.id() == nv, "C01", "C01:view_mut.set:err-value", "step {step}: set on a virtual view did not hand the value back");
                    ensure!(cur.is_none(), "C11", "C11:view_mut.set:virtual-but-stored", "step {step}: set at {:?} reports a virtual node although the key is stored", vk);
                    env.ev("view_set_virtual");
                }
            }
        }
        ViewAct::Remove => {
            env.cur_op = "view_mut.remove";
            let got = v.remove().map(|x| x.id());
            let want = if cur.is_some() { model.remove(vk) } else { None };
            ensure!(got == want, "C01", "C01:view_mut.remove:return", "step {step}: TrieViewMut::remove at {:?} returned {:?}, model {:?}", vk, got, want);
            if want.is_some() {
                *canonical = false;
                env.ev("removed_hit");
                env.ev("view_remove_hit");
                env.ev("leftover_created");
                drift = Some(("C04:len:view_mut.remove", 1));
            }
        }
        ViewAct::ValueMut => {
            env.cur_op = "view_mut.value_mut";
            let ro = v.value().map(|x| x.id());
            let got = v.value_mut();
            ensure!(got.as_ref().map(|x| x.id()) == ro, "C13", "C13:value_mut vs value", "step {step}: value_mut differs from value at {:?}", vk);
            ensure!(ro == cur.as_ref().map(|s| s.value), "C11", "C11:view_mut.value", "step {step}: view_mut at {:?} has value {:?}, model {:?}", vk, ro, cur);
            if let Some(g) = got {
                let nv = env.fresh();
                *g = V::mk(nv);
                model.m.get_mut(&vk).unwrap().value = nv;
                env.ev("write_through_ref");
            }
        }
        ViewAct::PrefixValueMut => {
            env.cur_op = "view_mut.prefix_value_mut";
            let ro = v.prefix_value().map(|(p, x)| (raw_of(p), x.id()));
            let got = v.prefix_value_mut();
            let g = got.as_ref().map(|(p, x)| (raw_of(*p), x.id()));
            ensure!(g == ro, "C13", "C13:prefix_value_mut vs prefix_value", "step {step}: prefix_value_mut differs from prefix_value at {:?}", vk);
            ensure!(ro.map(|x| (x.0.key(), x.1)) == cur.as_ref().map(|s| (vk, s.value)), "C11", "C11:view_mut.prefix_value", "step {step}: view_mut at {:?} has prefix_value {:?}, model {:?}", vk, ro, cur);
            if let (Some((gp, gv)), Some(s)) = (got, cur.as_ref()) {
                if env.focus.has(18) {
                    ensure!(gp.raw_bits() == s.repr, "C18", "C18:prefix_value_mut:repr", "step {step}: prefix_value_mut reports bits {:x}, stored {:x}", gp.raw_bits(), s.repr);
                }
                let nv = env.fresh();
                *gv = V::mk(nv);
                model.m.get_mut(&vk).unwrap().value = nv;
                env.ev("write_through_ref");
            }
        }
        ViewAct::IterMut(mask) | ViewAct::ValuesMut(mask) | ViewAct::IntoIter(mask) => {
            let want: Vec<(Key, u64)> = model.children(scope).into_iter().map(|(k, s)| (k, s.value)).collect();
            env.cur_op = "view.iter";
            let ro: Vec<(Key, u64)> = (&v).view().iter().take(lim).map(|(p, x)| (key_of(p), x.id())).collect();
            cmp_seq("C11", "view iter vs entries under its prefix", step, &ro, &want)?;
            match act {
                ViewAct::IterMut(_) => {
                    env.cur_op = "view_mut.iter_mut";
                    let refs: Vec<(&P, &mut V)> = v.iter_mut().take(lim).collect();
                    let mu: Vec<(Key, u64)> = refs.iter().map(|(p, x)| (key_of(*p), x.id())).collect();
                    cmp_seq("C13", "view iter_mut vs view iter", step, &mu, &ro)?;
                    if refs.len() >= 2 && refs.len() < model.len() {
                        env.ev("mut_traversal_strict_subset");
                    }
                    write_refs("view.iter_mut", refs, *mask, model, env)?;
                }
                ViewAct::ValuesMut(_) => {
                    env.cur_op = "view_mut.values_mut";
                    let refs: Vec<&mut V> = v.values_mut().take(lim).collect();
                    let mu: Vec<u64> = refs.iter().map(|x| x.id()).collect();
                    let rov: Vec<u64> = ro.iter().map(|x| x.1).collect();
                    ensure!(mu == rov, "C13", "C13:view values_mut vs values", "step {step}: view values_mut {:?} vs values {:?}", mu, rov);
                    for (i, (x, (k, _))) in refs.into_iter().zip(ro.iter()).enumerate() {
                        if (mask >> (i % 64)) & 1 == 1 {
                            let nv = env.fresh();
                            *x = V::mk(nv);
                            model.m.get_mut(k).unwrap().value = nv;
                            env.ev("write_through_ref");
                        }
                    }
                }
                _ => {
                    env.cur_op = "view_mut.into_iter";
                    let refs: Vec<(&P, &mut V)> = v.into_iter().take(lim).collect();
                    let mu: Vec<(Key, u64)> = refs.iter().map(|(p, x)| (key_of(*p), x.id())).collect();
                    cmp_seq("C13", "view_mut into_iter vs view iter", step, &mu, &ro)?;
                    write_refs("view_mut.into_iter", refs, *mask, model, env)?;
                }
            }
        }
    }
    if let Some((sig, delta)) = drift {
        view_count_drift(side, env, sig, delta);
    }
    env.cur_op = "";
    Ok(())
}

/// Run one `*_mut` set operation over two mutable views; writes go to the models.
#[allow(clippy::too_many_arguments)]
pub fn run_setop_mut<P: TP, L: Val, Rv: Val>(
    kind: SetKind,
    mut l: TrieViewMut<'_, P, L>,
    r: TrieViewMut<'_, P, Rv>,
    ml: &mut Model,
    mut mr: Option<&mut Model>,
    mask: u64,
    env: &mut Env,
    lk: Key,
    rk: Key,
) -> R {
    let step = env.step;
    let lim = 4 * (ml.len() + mr.as_ref().map_or(0, |m| m.len())) + 64;
    // entry sets of the two views according to the model
    let el: Vec<(Key, u64)> = ml.children(lk).into_iter().map(|(k, s)| (k, s.value)).collect();
    let er: Vec<(Key, u64)> = match &mr {
        Some(m) => m.children(rk),
        None => ml.children(rk),
    }
    .into_iter()
    .map(|(k, s)| (k, s.value))
    .collect();
    // cross-check the view contents first: a mismatch belongs to C11/C12, not to the set operation
    let gl: Vec<(Key, u64)> = (&l).view().iter().take(lim).map(|(p, v)| (key_of(p), v.id())).collect();
    let gr: Vec<(Key, u64)> = (&r).view().iter().take(lim).map(|(p, v)| (key_of(p), v.id())).collect();
    cmp_seq("C11", "left operand view iter vs entries under its prefix", step, &gl, &el)?;
    cmp_seq("C11", "right operand view iter vs entries under its prefix", step, &gr, &er)?;
    let lmap: std::collections::BTreeMap<Key, u64> = el.iter().copied().collect();
    let rmap: std::collections::BTreeMap<Key, u64> = er.iter().copied().collect();
    if !el.is_empty() && !er.is_empty() {
        env.ev("setop_mut_both_nonempty");
    }
    let mut wi = 0usize;
    let mut wbit = |env: &mut Env| {
        let b = (mask >> (wi % 64)) & 1 == 1;
        wi += 1;
        if b {
            env.ev("write_through_ref");
        }
        b
    };
    match kind {
        SetKind::Union => {
            let mut want: Vec<(Key, Option<u64>, Option<u64>)> = Vec::new();
            let allk: std::collections::BTreeSet<Key> = lmap.keys().chain(rmap.keys()).copied().collect();
            for k in allk {
                want.push((k, lmap.get(&k).copied(), rmap.get(&k).copied()));
            }
            env.cur_op = "union_mut";
            let items: Vec<(&P, Option<&mut L>, Option<&mut Rv>)> = l.union_mut(r).take(lim).collect();
            let got: Vec<(Key, Option<u64>, Option<u64>)> = items.iter().map(|(p, a, b)| (key_of(*p), a.as_ref().map(|x| x.id()), b.as_ref().map(|x| x.id()))).collect();
            ensure!(got == want, "C05", "C05:union_mut", "step {step}: union_mut of views {:?} / {:?} yields {:?}, expected {:?}", lk, rk, got, want);
            for (p, a, b) in items {
                let k = key_of(p);
                if let Some(a) = a {
                    if wbit(env) {
                        let nv = env.fresh();
                        *a = L::mk(nv);
                        ml.m.get_mut(&k).unwrap().value = nv;
                    }
                }
                if let Some(b) = b {
                    if wbit(env) {
                        let nv = env.fresh();
                        *b = Rv::mk(nv);
                        match &mut mr {
                            Some(m) => m.m.get_mut(&k).unwrap().value = nv,
                            None => ml.m.get_mut(&k).unwrap().value = nv,
                        }
                    }
                }
            }
        }
        SetKind::Intersection => {
            let want: Vec<(Key, u64, u64)> = lmap.iter().filter_map(|(k, v)| rmap.get(k).map(|w| (*k, *v, *w))).collect();
            env.cur_op = "intersection_mut";
            let items: Vec<(&P, &mut L, &mut Rv)> = l.intersection_mut(r).take(lim).collect();
            let got: Vec<(Key, u64, u64)> = items.iter().map(|(p, a, b)| (key_of(*p), a.id(), b.id())).collect();
            ensure!(got == want, "C06", "C06:intersection_mut", "step {step}: intersection_mut of views {:?} / {:?} yields {:?}, expected {:?}", lk, rk, got, want);
            for (p, a, b) in items {
                let k = key_of(p);
                if wbit(env) {
                    let nv = env.fresh();
                    *a = L::mk(nv);
                    ml.m.get_mut(&k).unwrap().value = nv;
                }
                if wbit(env) {
                    let nv = env.fresh();
                    *b = Rv::mk(nv);
                    match &mut mr {
                        Some(m) => m.m.get_mut(&k).unwrap().value = nv,
                        None => ml.m.get_mut(&k).unwrap().value = nv,
                    }
                }
            }
        }
        SetKind::Difference => {
            let want: Vec<(Key, u64)> = lmap.iter().filter(|(k, _)| !rmap.contains_key(k)).map(|(k, v)| (*k, *v)).collect();
            env.cur_op = "difference_mut";
            let items: Vec<prefix_trie::trieview::DifferenceMutItem<'_, P, L, Rv>> = l.difference_mut(&r).take(lim).collect();
            let got: Vec<(Key, u64)> = items.iter().map(|it| (key_of(it.prefix), it.value.id())).collect();
            ensure!(got == want, "C07", "C07:difference_mut", "step {step}: difference_mut of views {:?} / {:?} yields {:?}, expected {:?}", lk, rk, got, want);
            for it in items {
                let k = key_of(it.prefix);
                if wbit(env) {
                    let nv = env.fresh();
                    *it.value = L::mk(nv);
                    ml.m.get_mut(&k).unwrap().value = nv;
                }
            }
        }
        SetKind::CoveringDifference => {
            let rkeys: Vec<Key> = rmap.keys().copied().collect();
            let want: Vec<(Key, u64)> = lmap.iter().filter(|(k, _)| !rkeys.iter().any(|c| covers(*c, **k))).map(|(k, v)| (*k, *v)).collect();
            env.cur_op = "covering_difference_mut";
            let items: Vec<(&P, &mut L)> = l.covering_difference_mut(&r).take(lim).collect();
            let got: Vec<(Key, u64)> = items.iter().map(|(p, v)| (key_of(*p), v.id())).collect();
            ensure!(got == want, "C07", "C07:covering_difference_mut", "step {step}: covering_difference_mut of views {:?} / {:?} yields {:?}, expected {:?}", lk, rk, got, want);
            for (p, v) in items {
                let k = key_of(p);
                if wbit(env) {
                    let nv = env.fresh();
                    *v = L::mk(nv);
                    ml.m.get_mut(&k).unwrap().value = nv;
                }
            }
        }
    }
    env.cur_op = "";
    Ok(())
}

/// value-only operations through mutable accessors / traversals (C13)
fn is_value_only_mut(op: &Op) -> bool {
    match op {
        Op::GetMut { .. } | Op::GetLpmMut { .. } | Op::IterMut { .. } | Op::ValuesMut { .. } | Op::ChildrenMut { .. } | Op::SetOpMut { .. } => true,
        Op::ViewMut { act, .. } => matches!(act, ViewAct::ValueMut | ViewAct::PrefixValueMut | ViewAct::IterMut(_) | ViewAct::ValuesMut(_) | ViewAct::IntoIter(_)),
        _ => false,
    }
}

/// C13: after writes through yielded references every written entry holds its new value, nothing
/// else changed (values, key set, len, shape) and every read API sees the new values.
fn c13_after<P: TP, V: Val>(side: &mut Side<P, V>, env: &mut Env, before_keys: &[Key], before_shape: &crate::model::Shape, before_len: usize) -> R {
    let step = env.step;
    let retag = |f: crate::env::Fail, what: &str| crate::env::Fail {
        prop: "C13",
        sig: format!("C13:after-write:{what}"),
        msg: format!("after writing through the yielded references: {}", f.msg),
    };
    crate::observe::check_contents(side, env).map_err(|f| retag(f, "contents"))?;
    ensure!(side.model.keys() == before_keys, "C13", "C13:after-write:key-set", "step {step}: the set of stored prefixes changed");
    ensure!(side.map.len() == before_len, "C13", "C13:after-write:len", "step {step}: len() changed from {before_len} to {}", side.map.len());
    let after = shape_of(&side.map)?;
    ensure!(&after == before_shape, "C13", "C13:after-write:shape", "step {step}: the tree shape changed from {} to {}", before_shape.show(), after.show());
    // visible through other read APIs
    for (k, st) in side.model.m.iter() {
        let p: P = crate::model::mk_key(*k);
        let g = side.map.get(&p).map(|v| v.id());
        ensure!(g == Some(st.value), "C13", "C13:after-write:get", "step {step}: get({:?}) = {:?}, written value {}", k, g, st.value);
        let l = side.map.get_lpm(&p).map(|(pp, v)| (key_of(pp), v.id()));
        ensure!(l == Some((*k, st.value)), "C13", "C13:after-write:get_lpm", "step {step}: get_lpm({:?}) = {:?}, written value {}", k, l, st.value);
        let vv = (&side.map).view_at(p.clone()).and_then(|v| v.value().map(|x| x.id()));
        ensure!(vv == Some(st.value), "C13", "C13:after-write:view", "step {step}: view_at({:?}).value() = {:?}, written value {}", k, vv, st.value);
    }
    let vals: Vec<u64> = side.map.values().take(iter_limit(&side.model)).map(|v| v.id()).collect();
    let want: Vec<u64> = side.model.m.values().map(|s| s.value).collect();
    ensure!(vals == want, "C13", "C13:after-write:values", "step {step}: values() = {:?}, expected {:?}", vals, want);
    Ok(())
}

/// One step of a history.
pub fn step<P: TP, VA: Val, VB: Val>(w: &mut World<P, VA, VB>, op: &Op, env: &mut Env) -> R {
    env.ev(op.kind_name());
    if env.focus.has(13) && is_value_only_mut(op) {
        let ka = w.a.model.keys();
        let kb = w.b.model.keys();
        let (sa, sb) = (shape_of(&w.a.map)?, shape_of(&w.b.map)?);
        let (la, lb) = (w.a.map.len(), w.b.map.len());
        let saved = env.focus;
        env.focus = crate::env::Focus(1 << 13);
        let r = step_inner(w, op, env);
        env.focus = saved;
        // a content mismatch right after a value-only mutable operation is a C13 failure
        r.map_err(|f| {
            if f.prop == "C01" || f.prop == "C03" {
                crate::env::Fail {
                    prop: "C13",
                    sig: format!("C13:after-write:{}", f.sig),
                    msg: format!("after writing through the yielded references: {}", f.msg),
                }
            } else {
                f
            }
        })?;
        c13_after(&mut w.a, env, &ka, &sa, la)?;
        c13_after(&mut w.b, env, &kb, &sb, lb)?;
        return Ok(());
    }
    step_inner(w, op, env)
}

fn step_inner<P: TP, VA: Val, VB: Val>(w: &mut World<P, VA, VB>, op: &Op, env: &mut Env) -> R {
    match op {
        Op::SetOpMut { kind, ops, nav_a, nav_b, mask } => {
            env.ev("setop_mut");
            match ops {
                Operands::AB => {
                    let World { a, b } = w;
                    env.cur_op = "view_mut";
                    let Some((va, sa)) = nav_mut(a.map.view_mut(), nav_a, env) else { return Ok(()) };
                    let Some((vb, sb)) = nav_mut(b.map.view_mut(), nav_b, env) else { return Ok(()) };
                    run_setop_mut(*kind, va, vb, &mut a.model, Some(&mut b.model), *mask, env, sa, sb)?;
                }
                Operands::SplitA => {
                    env.cur_op = "view_mut";
                    let Some((v, _)) = nav_mut(w.a.map.view_mut(), nav_a, env) else { return Ok(()) };
                    env.cur_op = "view_mut.split";
                    if let (Some(l), Some(r)) = v.split() {
                        env.ev("setop_mut_split_halves");
                        let (lk, rk) = (key_of(l.prefix()), key_of(r.prefix()));
                        run_setop_mut(*kind, l, r, &mut w.a.model, None, *mask, env, lk, rk)?;
                    }
                }
                Operands::SplitB => {
                    env.cur_op = "view_mut";
                    let Some((v, _)) = nav_mut(w.b.map.view_mut(), nav_b, env) else { return Ok(()) };
                    env.cur_op = "view_mut.split";
                    if let (Some(l), Some(r)) = v.split() {
                        env.ev("setop_mut_split_halves");
                        let (lk, rk) = (key_of(l.prefix()), key_of(r.prefix()));
                        run_setop_mut(*kind, l, r, &mut w.b.model, None, *mask, env, lk, rk)?;
                    }
                }
            }
            let World { a, b } = w;
            observe(a, env, Some(&b.model))?;
            observe(b, env, Some(&a.model))?;
        }
        _ => match op.side().unwrap() {
            M::A => {
                step_single(&mut w.a, op, env)?;
                observe(&mut w.a, env, Some(&w.b.model))?;
            }
            M::B => {
                step_single(&mut w.b, op, env)?;
                observe(&mut w.b, env, Some(&w.a.model))?;
            }
        },
    }
    Ok(())
}

/// ops that must not change the tree shape (value flags aside)
fn shape_preserving(op: &Op) -> bool {
    match op {
        Op::GetMut { .. } | Op::GetLpmMut { .. } | Op::IterMut { .. } | Op::ValuesMut { .. } | Op::ChildrenMut { .. } | Op::ViewMut { .. } | Op::RemoveKeepTree { .. } => true,
        Op::Entry { act, .. } => match act {
            EntryAct::Get | EntryAct::GetMutWrite | EntryAct::Key | EntryAct::AndModifyGet => true,
            EntryAct::Match { vac, .. } => matches!(vac, VacAct::Key),
            _ => false,
        },
        _ => false,
    }
}

fn step_single<P: TP, V: Val>(side: &mut Side<P, V>, op: &Op, env: &mut Env) -> R {
    // C15: value-only operations and remove_keep_tree never change the shape
    let check_shape = env.focus.has(15) && shape_preserving(op);
    let before = if check_shape { Some(shape_of(&side.map)?.skeleton()) } else { None };
    // an Entry::Match on an occupied entry never changes the shape either, whatever the vacant action is
    let occupied_match = matches!(op, Op::Entry { act: EntryAct::Match { .. }, .. });
    let before2 = if env.focus.has(15) && occupied_match && !check_shape { Some((shape_of(&side.map)?.skeleton(), side.model.len())) } else { None };
    let model_keys_before: Option<Vec<Key>> = if before2.is_some() { Some(side.model.keys()) } else { None };
    apply_single(side, op, env)?;
    if let Some(b) = before {
        let after = shape_of(&side.map)?.skeleton();
        ensure!(b == after, "C15", "C15:value-only-op:shape", "step {}: {} changed the tree shape from {} to {}", env.step, op.kind_name(), b.show(), after.show());
        env.ev("shape_preservation_checked");
    }
    if let (Some((b, _)), Some(kb)) = (before2, model_keys_before) {
        // occupied path taken iff the key set did not grow
        let ka = side.model.keys();
        if ka.len() <= kb.len() {
            let after = shape_of(&side.map)?.skeleton();
            ensure!(b == after, "C15", "C15:occupied-entry-op:shape", "step {}: an OccupiedEntry operation changed the tree shape from {} to {}", env.step, b.show(), after.show());
            env.ev("shape_preservation_checked");
        }
    }
    Ok(())
}

/// Run a whole history. Returns at the first failed oracle.
pub fn run_history<P: TP, VA: Val, VB: Val>(w: &mut World<P, VA, VB>, ops: &[Op], env: &mut Env) -> R {
    for (i, op) in ops.iter().enumerate() {
        env.step = i;
        step(w, op, env)?;
        let live = w.a.model.len().max(w.b.model.len());
        if live >= 3 {
            env.ev("live_ge3");
        }
        if env.stopped_on_taint {
            env.ev("stopped_on_taint");
            break;
        }
    }
    Ok(())
}
