//! Byte-level decoder for coverage-guided fuzzing: raw fuzzer bytes -> the same `Case` / `PairCase`
//! values the proptest generators produce, so the fuzz targets run the same interpreter and oracles.

use crate::ops::*;
use crate::pairs::PairCase;
use crate::tp::FUZZ_TYPES;

pub struct Cur<'a> {
    d: &'a [u8],
    p: usize,
}

impl<'a> Cur<'a> {
    pub fn new(d: &'a [u8]) -> Self {
        Cur { d, p: 0 }
    }
    pub fn left(&self) -> usize {
        self.d.len().saturating_sub(self.p)
    }
    pub fn u8(&mut self) -> u8 {
        let v = self.d.get(self.p).copied().unwrap_or(0);
        self.p += 1;
        v
    }
    pub fn u16(&mut self) -> u16 {
        (self.u8() as u16) << 8 | self.u8() as u16
    }
    pub fn u32(&mut self) -> u32 {
        (self.u16() as u32) << 16 | self.u16() as u32
    }
    pub fn u64(&mut self) -> u64 {
        (self.u32() as u64) << 32 | self.u32() as u64
    }
    pub fn below(&mut self, n: u8) -> u8 {
        if n == 0 {
            0
        } else {
            self.u8() % n
        }
    }
}

fn pref(c: &mut Cur) -> PRef {
    // one byte selects the universe member (scaled), one the noise class
    let i = (c.u8() as u16) << 8 | 0x80;
    let nb = c.u8();
    let noise = match nb % 4 {
        0 | 1 => 0,
        2 => 1,
        _ => nb,
    };
    PRef { i, noise }
}

fn ustep(c: &mut Cur) -> UStep {
    let kind = c.below(12);
    let parent = (c.u8() as u16) << 8 | 0x80;
    let a = c.u8();
    let b = c.u32();
    // spread 32 bits over 128 so that both short and long prefixes vary
    let bits = ((b as u128) << 96) | ((splitmix(b as u64) as u128) << 32) | (b as u128);
    UStep { kind, parent, a, bits }
}

fn nav(c: &mut Cur) -> Vec<Nav> {
    let n = c.below(4);
    (0..n)
        .map(|_| match c.below(8) {
            0 => {
                if c.u8() & 1 == 0 {
                    Nav::At(pref(c))
                } else {
                    let p = pref(c);
                    Nav::AtCut(p, c.u8())
                }
            }
            1 | 2 => Nav::Find(pref(c)),
            3 => Nav::FindExact(pref(c)),
            4 => Nav::FindLpm(pref(c)),
            5 => Nav::Left,
            6 => Nav::Right,
            _ => {
                if c.u8() & 1 == 0 {
                    Nav::SplitLeft
                } else {
                    Nav::SplitRight
                }
            }
        })
        .collect()
}

fn m(c: &mut Cur, two: bool) -> M {
    if two && c.u8() % 3 == 0 {
        M::B
    } else {
        M::A
    }
}

pub fn op(c: &mut Cur, two_maps: bool) -> Op {
    let k = c.u8();
    match k % 40 {
        0..=11 => Op::Insert { m: m(c, two_maps), p: pref(c) },
        12..=15 => Op::Remove { m: m(c, two_maps), p: pref(c) },
        16..=18 => Op::RemoveKeepTree { m: m(c, two_maps), p: pref(c) },
        19 => Op::RemoveChildren { m: m(c, two_maps), p: pref(c) },
        20 => {
            let pred = match c.below(6) {
                0 | 1 => Pred::HashBit(c.u8()),
                2 => Pred::LenLe(c.u8()),
                3 => Pred::CoveredBy(pref(c)),
                4 => Pred::NotCoveredBy(pref(c)),
                _ => Pred::Nothing,
            };
            Op::Retain { m: m(c, two_maps), pred }
        }
        21 => {
            if c.u8() % 4 == 0 {
                Op::Clear { m: m(c, two_maps) }
            } else {
                Op::Collect { m: m(c, two_maps) }
            }
        }
        22..=25 => {
            let act = match c.below(9) {
                0 => EntryAct::Insert,
                1 => EntryAct::OrInsert { write: c.u8() & 1 == 1 },
                2 => EntryAct::OrInsertWith { write: c.u8() & 1 == 1 },
                3 => EntryAct::OrDefault { write: c.u8() & 1 == 1 },
                4 => EntryAct::AndModifyOrInsert,
                5 => EntryAct::AndModifyGet,
                6 => EntryAct::Get,
                7 => EntryAct::GetMutWrite,
                _ => EntryAct::Key,
            };
            Op::Entry { m: m(c, two_maps), p: pref(c), act }
        }
        26..=28 => {
            let vac = match c.below(4) {
                0 => VacAct::Insert,
                1 => VacAct::InsertWith,
                2 => VacAct::Default,
                _ => VacAct::Key,
            };
            let n = 1 + c.below(4);
            let occ = (0..n)
                .map(|_| match c.below(5) {
                    0 => OccAct::Get,
                    1 => OccAct::GetMutWrite,
                    2 => OccAct::Key,
                    3 => OccAct::Insert,
                    _ => OccAct::Remove,
                })
                .collect();
            Op::Entry {
                m: m(c, two_maps),
                p: pref(c),
                act: EntryAct::Match { vac, occ },
            }
        }
        29 => Op::GetMut { m: m(c, two_maps), p: pref(c) },
        30 => Op::GetLpmMut { m: m(c, two_maps), p: pref(c) },
        31 => {
            if c.u8() & 1 == 0 {
                Op::IterMut { m: m(c, two_maps), mask: c.u64() }
            } else {
                Op::ValuesMut { m: m(c, two_maps), mask: c.u64() }
            }
        }
        32 => Op::ChildrenMut { m: m(c, two_maps), p: pref(c), mask: c.u64() },
        33..=36 => {
            let act = match c.below(8) {
                0 | 1 => ViewAct::Set,
                2 | 3 => ViewAct::Remove,
                4 => ViewAct::ValueMut,
                5 => ViewAct::PrefixValueMut,
                6 => ViewAct::IterMut(c.u64()),
                _ => ViewAct::IntoIter(c.u64()),
            };
            Op::ViewMut { m: m(c, two_maps), nav: nav(c), act }
        }
        37 | 38 if two_maps => {
            let kind = match c.below(4) {
                0 => SetKind::Union,
                1 => SetKind::Intersection,
                2 => SetKind::Difference,
                _ => SetKind::CoveringDifference,
            };
            let ops = match c.below(5) {
                0 => Operands::SplitA,
                1 => Operands::SplitB,
                _ => Operands::AB,
            };
            Op::SetOpMut { kind, ops, nav_a: nav(c), nav_b: nav(c), mask: c.u64() }
        }
        37 | 38 => Op::Insert { m: M::A, p: pref(c) },
        _ => {
            if c.u8() & 1 == 0 {
                Op::CloneSwap { m: m(c, two_maps) }
            } else {
                let n = c.below(6);
                Op::FromIter { m: m(c, two_maps), items: (0..n).map(|_| pref(c)).collect() }
            }
        }
    }
}

pub fn decode_case(data: &[u8], two_maps: bool, max_ops: usize) -> Case {
    let mut c = Cur::new(data);
    let ptype = FUZZ_TYPES[(c.u8() % 5) as usize].to_string();
    let nu = 2 + c.below(12) as usize;
    let usteps = (0..nu).map(|_| ustep(&mut c)).collect();
    let mut ops = Vec::new();
    while c.left() > 0 && ops.len() < max_ops {
        ops.push(op(&mut c, two_maps));
    }
    Case { ptype, usteps, ops, extra: vec![] }
}

pub fn decode_pair(data: &[u8]) -> PairCase {
    let mut c = Cur::new(data);
    let mode = match c.below(8) {
        0 | 1 => 1,
        2 => 2,
        _ => 0,
    };
    let nav_a = nav(&mut c);
    let nav_b = nav(&mut c);
    let rest = &data[c.p.min(data.len())..];
    PairCase {
        case: decode_case(rest, true, 40),
        nav_a,
        nav_b,
        mode,
    }
}

/// Decode a C14 case (state, split plan, worker programs) from bytes.
pub fn decode_c14(data: &[u8], ptype: &str, max_ops: usize) -> crate::c14::C14Case {
    use crate::c14::{PlanStep, WOp};
    let mut c = Cur::new(data);
    let nplan = c.below(10) as usize;
    let plan = (0..nplan)
        .map(|_| {
            let i = (c.u8() as u16) << 8;
            match c.below(8) {
                0..=4 => PlanStep::Split(i),
                5 => PlanStep::Left(i),
                6 => PlanStep::Find(i, pref(&mut c)),
                _ => PlanStep::FindLpm(i, pref(&mut c)),
            }
        })
        .collect();
    let nw = 1 + c.below(4) as usize;
    let workers = (0..nw)
        .map(|_| {
            let n = c.below(4) as usize;
            (0..n)
                .map(|_| match c.below(10) {
                    0 | 1 | 2 => WOp::IterMutWrite(c.u64()),
                    3 => WOp::ValuesMutWrite(c.u64()),
                    4 => WOp::Set,
                    5 => WOp::Remove,
                    6 => WOp::ValueMut,
                    7 => WOp::Find(pref(&mut c)),
                    8 => WOp::UnionPrivate((0..c.below(4)).map(|_| pref(&mut c)).collect()),
                    _ => WOp::DifferencePrivate((0..c.below(4)).map(|_| pref(&mut c)).collect()),
                })
                .collect()
        })
        .collect();
    let pair_kind = c.below(6);
    let mask = c.u64();
    let rest = &data[c.p.min(data.len())..];
    let mut case = decode_case(rest, false, max_ops);
    case.ptype = ptype.to_string();
    // insert-heavy: turn every second non-insert into an insert so that the map is populated
    for (i, o) in case.ops.iter_mut().enumerate() {
        if i % 2 == 0 {
            if let Some(p) = match o {
                Op::Remove { p, .. } | Op::RemoveKeepTree { p, .. } | Op::RemoveChildren { p, .. } | Op::GetMut { p, .. } | Op::GetLpmMut { p, .. } => Some(*p),
                _ => None,
            } {
                *o = Op::Insert { m: M::A, p };
            }
        }
    }
    crate::c14::C14Case { case, plan, workers, pair_kind, mask }
}
