#![no_main]
use libfuzzer_sys::fuzz_target;
fuzz_target!(|data: &[u8]| {
    ptv::fuzz_entry::fuzz_one("ops", data);
});
