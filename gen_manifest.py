#!/usr/bin/env python3
"""Regenerates MANIFEST.json from the table below (kept in one place so it stays valid)."""
import json
claimed = {
 # id: (technique, level text, level_note, design_ref)
 "C01": ("model-based stateful property testing (proptest histories vs BTreeMap model, per-step oracles)",
         "generated call histories over the complete mutator alphabet on all 14 prefix types are run in lock-step against a BTreeMap reference model; every return value and every exact-match observer is compared after every step for the whole query set. Sampling, not proof: the right level because the property quantifies over unbounded histories.",
         "trusted: the harness model (u128 bit arithmetic, BTreeMap), proptest generators; sampled histories up to 40 (quick) / 200 (thorough) operations"),
 "C02": ("model-based property testing with linear-scan LPM oracle",
         "after every step of leftover-heavy generated histories, get_lpm / get_lpm_prefix / get_lpm_mut are compared with a linear scan over the model for the whole query set (all 511 prefixes on the 8-bit type)",
         "trusted: harness model; sampled shapes"),
 "C03": ("model-based property testing, sequence equality of every traversal",
         "11 traversals and 4 clones of partially consumed iterators are compared with the model's ordered sequence after every step and polled after exhaustion",
         "trusted: harness model (derived Ord on (net,len) is the lexicographic order)"),
 "C04": ("stateful property testing: len() vs iter().count() after every step, known-findings drift protocol",
         "len()/is_empty() are compared with the number of iterated entries after every step of histories over the complete alphabet; two listed findings (writes through TrieViewMut) are tolerated by exact signature and expected drift, anything else is a violation",
         "public API only; sampled histories"),
 "C09": ("model-based property testing with linear-scan cover oracle",
         "cover / cover_keys / cover_values / get_spm / get_spm_prefix compared with the model's covering set for the whole query set after every step",
         "trusted: harness model"),
 "C10": ("model-based property testing (children*, remove_children, retain with recording predicate)",
         "children / children_mut / into_children compared for the whole query set after every step; remove_children and retain are part of the history with exact post-conditions and a predicate that records its calls",
         "trusted: harness model"),
 "C11": ("property testing over (state, query) with complete recursion over reachable views",
         "final states of generated histories: for every query view_at/view_mut_at and every view reachable by left/right/split are compared with the model's entries under the view prefix; iff-direction on canonical histories",
         "trusted: harness model; views are explored completely per state, states are sampled"),
 "C12": ("property testing over (view, query) pairs with model oracle",
         "every reachable view x every query: find, find_exact, find_lpm, view_at on views and their mutable twins against the model's entry set of the view",
         "trusted: harness model; states sampled"),
 "C15": ("stateful property testing with closed-form canonical-shape oracle",
         "the shape walked through views is checked for well-formedness after every step of full-alphabet histories, and compared with the closed-form canonical shape of the key set while only the canonical sub-alphabet was used; shape preservation of value-only operations",
         "trusted: closed-form shape (lcp closure) in the harness"),
 "C16": ("stateful property testing of the arena partition invariant through the verif-hooks accessor",
         "after every step: every slot is reachable from the root xor on the free list, no duplicates, free slots hold no value, arena <= 2*peak+1, emptied map is minimal",
         "trusted: the read-only hook PrefixMap::verif_arena (feature verif-hooks)"),
 "C18": ("model-based property testing with bit-exact stored-representation oracle under host-bit noise",
         "every prefix use draws independent host bits; every prefix returned for a stored entry is compared bit-for-bit with the representation of the last inserting call",
         "trusted: harness model of which calls replace the representation (taken from the property statement)"),
 "C20": ("stateful property testing under catch_unwind with overflow checks and debug assertions",
         "histories over the complete API incl. handle-level sequences on all prefix types with forced boundary lengths; any panic located in the crate is a violation; iterators are step-bounded",
         "checking profile only in the quick tier"),
}
claimed.update({
 "C05": ("differential property testing of view pairs against a model merge (tags, values, order)",
         "generated pairs of views (two maps of different value types with leftover shapes, one map twice, map vs PrefixSet; roots reached by generated navigation programs: stored, branching, virtual, nested, disjoint) - union items are compared with the model's merge as a full sequence incl. tags, values and accessors; union_mut must yield the same prefixes and presence pattern",
         "trusted: harness model; entry set of each operand is cross-checked against view.iter() and mismatching pairs are discarded (counted)"),
 "C06": ("differential property testing of view pairs against model intersection",
         "same pair generator as C05; intersection and intersection_mut compared as full sequences with the model; disjoint sub-views of one map must give an empty result",
         "trusted: harness model"),
 "C07": ("differential property testing of view pairs against model (covering) difference",
         "same pair generator; difference, covering_difference and their *_mut twins compared as full sequences with the model definitions (b empty, b holding the zero-length prefix, b's root below/beside a's root are measured classes)",
         "trusted: harness model"),
 "C08": ("property testing of LPM annotations against a linear-scan LPM over the other view's entries",
         "every Left/Right union item and every difference / difference_mut item: the reported match must equal the longest entry of the other view covering the item (None iff none), over the relative-root-position classes equal / nested / disjoint",
         "trusted: harness model"),
 "C13": ("differential (mutable vs read-only twin) + write-through property testing",
         "each mutable traversal is compared with its read-only twin; all yielded references are held simultaneously, then distinct values are written; afterwards contents, key set, len, walked shape and other read APIs are compared; *_mut set operations additionally on generated view pairs",
         "trusted: harness model"),
 "C14": ("property testing of reference identity over split forests + threaded-vs-sequential differential + generated client programs checked with rustc",
         "runtime: addresses/keys of all simultaneously live &mut over generated split plans are pairwise distinct, views never overlap, concurrent workers on disjoint views give the sequential result; compile time: ~1500 generated programs (two live exclusive handles, shared across exclusive, mutation while borrowed, use after move, escape, threads, Clone/Copy, auto-trait grid with Rc / Cell / MutexGuard values) must be rejected while their benign siblings compile",
         "native threads do not control the schedule (Miri does, in the thorough tier); the program grammar is finite (two handles per conflict)"),
 "C17": ("exhaustive enumeration on the 8-bit type + property testing on the other 13 types against u128 bit arithmetic and the default trait methods",
         "all 2304 values x 2304 values of (u8,u8) incl. host bits and all bit indices 0..=255 are enumerated; other types get boundary-biased generated triples with controlled common-prefix length; overrides are compared with the crate's default methods through a forwarding newtype; every call under catch_unwind with overflow checks",
         "exhaustive only for (u8,u8); release-profile (wrapping) run only in the thorough tier"),
 "C19": ("metamorphic property testing of ==, clone, collect, serde round-trip",
         "a generated state is compared with derived states (permuted rebuild, leftover debris, strict prefix/suffix/sub-sequence, empty, one value changed, host-bit-only change, independent, clone); oracle = equality of the (stored prefix, value) sequences; reflexive/symmetric/transitive; clone independence both ways under a generated suffix; collect and serde_json round-trips",
         "serde round-trips only for key types with serde support in this build"),
})
planned = {}
import os
extra = {}
if os.path.exists('/verif/manifest_extra.json'):
    extra = json.load(open('/verif/manifest_extra.json'))
extra_text = {
 "C01": " Also run through the PrefixSet API, on big universes (40-72 prefixes, 80-200 operations), at scale (bulk inserts of hundreds of prefixes, complete nested chains of depth W+1), by bounded-exhaustive BFS on (u8,u8) (lengths <= 2 to fixpoint: 3380 states / 216 k transitions; lengths <= 3 to a depth/state cap) and, in the thorough tier, by a libFuzzer campaign on the same interpreter.",
 "C02": " Also through PrefixSet::get_lpm, on big/scale/chain cases and under the BFS.",
 "C03": " Also PrefixSet iterators, default-constructed iterators, big/scale/chain cases, BFS.",
 "C04": " Also PrefixSet, big/scale cases (>= 256 entries under one selector), BFS; a panic inside a counter-affecting operation counts as a violation.",
 "C05": " Every case additionally sweeps 7x7 root pairs (all nodes of both tries and the positions one bit above them); 1/16 of the cases are scale cases; `&map` operands; thorough tier adds a libFuzzer campaign (`setops`).",
 "C06": " Same generator and root sweep as C05.",
 "C07": " Same generator and root sweep as C05.",
 "C08": " Same generator and root sweep as C05; the reported match must be bit-identical to the stored prefix of the other view; difference_mut annotations included.",
 "C09": " All LPM variants are compared with the last element of the cover; PrefixSet::cover/get_spm; big/scale/chain cases; BFS.",
 "C10": " Extra retain-heavy and bulk-removal profiles, PrefixSet twins, big/scale cases, BFS.",
 "C11": " Also (&view_mut).view(), PrefixSet views, big tries.",
 "C12": " Also depth-2 search chains (find on the result of find) and big tries.",
 "C13": " Twins are compared bit for bit (raw prefix incl. host bits).",
 "C14": " On states whose arena has a node reachable along two paths the identity check runs model-free. Thorough tier: Miri (3 schedule seeds; all operations without borrow tracking, the get_mut-only subset with Stacked Borrows).",
 "C15": " Also on PrefixSet, big/scale/chain cases, BFS (canonical sub-alphabet: every reachable key set over 15 prefixes up to the cap).",
 "C16": " Plus churn cases (working set inserted/removed for 6-400 phases, arena length must reach a steady state), clone / clone_from, big/scale cases, BFS.",
 "C18": " Interchangeability is decided by a metamorphic twin: a case failing any oracle under host-bit noise is re-run with all host bits zeroed; if the twin passes the behaviour depends on host bits.",
 "C19": " Also sets with value-less leftover nodes, clone_from into a map with its own history, serde_json round-trips.",
 "C20": " Plus fault injection: for every generated state a panic is injected at every retain predicate invocation index (4 predicates) and into or_insert_with / insert_with / and_modify closures on vacant, occupied and value-less-node entries; afterwards shape, len, contents, arena and a suffix of ordinary operations are checked. Debug formatting included. Thorough tier re-runs everything in a release-profile build (no overflow checks).",
 "C17": " Thorough tier re-runs everything in a release-profile build (wrapping arithmetic).",
}
checks=[]
for pid,(tech,text,note) in sorted(claimed.items()):
    checks.append({
      "property_id": pid,
      "quick_cmd": f"./check {pid} quick",
      "thorough_cmd": f"./check {pid} thorough",
      "evidence_file": f"/verif/evidence/{pid}.json",
      "replay_cmd_template": f"./check {pid} --replay {{path}}",
      "engine": "ptv",
      "level_claimed": {"category": "exploration", "text": text + extra_text.get(pid, ""), "design_ref": f"DESIGN.md §4 {pid}, §7-8 (as built)"},
      "level_note": note,
      "technique": tech,
    })
m={
 "version": 1,
 "setup_cmd": "cd /verif/harness && CARGO_NET_OFFLINE=true cargo build --release --target-dir /verif/target",
 "hooks": {
   "guard": "cargo feature verif-hooks",
   "enable": "the harness depends on prefix-trie = { path = \"/repo\", features = [..., \"verif-hooks\"] }",
   "baseline_off_cmd": "cd /repo && cargo test --workspace --no-fail-fast --offline",
   "source_commits": ["600915f"],
   "add_only": True
 },
 "engines": [
   {"name": "ptv", "path": "/verif/harness", "serves_properties": sorted(claimed.keys()),
    "kind_free_text": "Rust harness: proptest TestRunner (fixed seeds, sharded over 16 threads), BTreeMap reference model and u128 bit-arithmetic oracles, history interpreter for PrefixMap (two value types) and PrefixSet, shrinking to JSON replay files, evidence writer, known-findings protocol"},
   {"name": "ptv-bfs", "path": "/verif/harness/src/bfs.rs", "serves_properties": ["C01","C02","C03","C04","C09","C10","C15","C16","C20"],
    "kind_free_text": "bounded-exhaustive breadth-first enumeration of observable states on (u8,u8) with prefix lengths <= 2 (to fixpoint) and <= 3 (depth/state cap), all per-step oracles on every transition"},
   {"name": "ptv-progs", "path": "/verif/harness/src/progs.rs", "serves_properties": ["C14"],
    "kind_free_text": "generated client programs (borrow conflicts, use after move, escapes, threads, Clone/Copy, auto-trait grid) compiled with cargo check; conflict programs must be rejected, benign siblings accepted"},
   {"name": "ptv-miri", "path": "/verif/harness/src/miri.rs", "serves_properties": ["C14"],
    "kind_free_text": "thorough tier: deterministic split-forest / thread cases under cargo +nightly miri (3 schedules seeds; all operations without borrow tracking, get_mut-only subset with Stacked Borrows)"},
   {"name": "ptv-fuzz", "path": "/verif/fuzz", "serves_properties": ["C01","C05"],
    "kind_free_text": "thorough tier: cargo-fuzz/libFuzzer targets `ops` and `setops` decoding bytes into the same cases and running the same oracles (few-types build); crash artifacts are converted into JSON replays"}
 ],
 "checks": checks,
 "not_applicable": [{"property_id": k, "reason": v} for k,v in sorted(planned.items())],
 "notes": "VERIF_SEED selects the proptest seed (default 1). Exit 2 = infrastructure problem (harness does not build against the tree / harness panic), never a violation. known_findings.json lists tolerated (status known) and repaired (status fixed) defects."
}
json.dump(m, open('/verif/MANIFEST.json','w'), indent=1)
print("claimed", len(checks), "n/a", len(planned))
