#!/usr/bin/env bash
# soak.sh <tier> <seed>...   run every check with several seeds on the unchanged tree; any non-zero exit is reported
TIER="$1"; shift
cd "$(dirname "$0")"
FAIL=0
for s in "$@"; do
  for i in 01 02 03 04 05 06 07 08 09 10 11 12 13 14 15 16 17 18 19 20; do
    T0=$(date +%s)
    OUT=$(VERIF_SEED=$s ./check C$i "$TIER" 2>&1); CODE=$?
    T1=$(date +%s)
    echo "seed=$s C$i exit=$CODE $((T1-T0))s $(echo "$OUT" | grep -E '^OK|VIOLATION|INFRA' | tail -1)"
    [ $CODE -ne 0 ] && { FAIL=1; echo "$OUT" | tail -5; }
  done
done
echo "SOAK-DONE fail=$FAIL"
