#!/usr/bin/env python3
"""False-alarm test: apply each property-preserving refactoring (diffs in the directory given as
argument, default /verif/refactorings) to /repo, run every quick check, undo; every check must exit 0."""
import glob, os, subprocess, sys, json, re
def sh(cmd, **kw): return subprocess.run(cmd, shell=True, capture_output=True, text=True, **kw)
d = sys.argv[1] if len(sys.argv) > 1 else '/verif/refactorings'
only = sys.argv[2:]
assert sh('git -C /repo diff --quiet').returncode == 0, "/repo is dirty"
res = {}
for p in sorted(glob.glob(f'{d}/refac_*.diff')):
    name = os.path.basename(p)
    if only and name not in only: continue
    r = sh(f'git -C /repo apply {p}')
    if r.returncode != 0:
        print(name, 'APPLY FAILED', r.stderr[:200]); continue
    row = {}
    try:
        for i in range(1, 21):
            pid = f'C{i:02d}'
            c = sh(f'cd /verif && PTV_NO_EVIDENCE=1 ./check {pid} quick', timeout=1800)
            row[pid] = c.returncode
            if c.returncode != 0:
                m = re.search(r'violated oracle: (\S+) \[(.*?)\]', c.stdout)
                row[pid + '_detail'] = (m.group(2) if m else c.stdout[-300:])
    finally:
        sh('git -C /repo checkout -- .')
    bad = {k: v for k, v in row.items() if not k.endswith('_detail') and v != 0}
    print(name, 'ALL-SILENT' if not bad else f'ALARMS {bad} ' + json.dumps({k: v for k, v in row.items() if k.endswith("_detail")}), flush=True)
    res[name] = row
json.dump(res, open(f'{d}/RESULTS.json', 'w'), indent=1)
