#!/usr/bin/env python3
"""Run the quick check of the targeted property against every confirmed seeded change in
/verif/seeded/<ID>-<n>/patch.diff (applied to /repo, undone afterwards) and record the outcome
in meta.json. Usage: seed_matrix.py [ID-n ...]   (default: all)"""
import json, os, re, subprocess, sys, glob, time
REPO = os.environ.get('SM_REPO', '/repo'); VERIF = os.environ.get('SM_VERIF', '/verif')  # a second stream may use a scratch copy of both (never for C14: its programs name /repo)
def sh(cmd, **kw): return subprocess.run(cmd, shell=True, capture_output=True, text=True, **kw)
dirs = sorted(glob.glob('/verif/seeded/C*-*'))
if len(sys.argv) > 1: dirs = [d for d in dirs if os.path.basename(d) in sys.argv[1:]]
assert sh(f'git -C {REPO} diff --quiet').returncode == 0, "/repo is dirty"
rows = []
for d in dirs:
    name = os.path.basename(d); pid = name.split('-')[0]
    patch = f'{d}/patch.diff'
    r = sh(f'git -C {REPO} apply {patch}')
    if r.returncode != 0:
        print(name, 'APPLY FAILED', r.stderr[:200]); continue
    t0 = time.time()
    try:
        c = sh(f'cd {VERIF} && PTV_NO_EVIDENCE=1 ./check {pid} quick', timeout=900)
        out, code = c.stdout, c.returncode
    except subprocess.TimeoutExpired:
        out, code = 'TIMEOUT', 2
    finally:
        sh(f'git -C {REPO} checkout -- .')
    sig = re.search(r'violated oracle: (\S+) \[(.*?)\]', out)
    meta_path = f'{d}/meta.json'
    meta = json.load(open(meta_path)) if os.path.exists(meta_path) else {}
    notes = open(f'{d}/NOTES.md').read() if os.path.exists(f'{d}/NOTES.md') else ''
    if meta.get('detected_thorough'):
        print(name, 'quick exit', code, '(thorough-only seed, meta kept)'); rows.append((name, 1, 'thorough')); continue
    meta.update({
        'id': name, 'breaks_property': pid,
        'origin': 'written by an independent sub-agent that saw only the property text and a scratch worktree of /repo',
        'confirmed': 'verify_seed.sh: patch applies to HEAD, cargo build --all-features ok, cargo test --workspace --no-fail-fast --offline green with the change, demo.rs (integration test) fails with the change and passes without',
        'needs_to_manifest': meta.get('needs_to_manifest', 'see NOTES.md (section of this change)'),
        'check_run': f'git -C /repo apply patch.diff; ./check {pid} quick; git -C /repo checkout -- .',
        'check_exit_code': code,
        'detected': code == 1,
        'violated_oracle': sig.group(2) if sig else None,
        'check_wall_s': round(time.time() - t0, 1),
    })
    json.dump(meta, open(meta_path, 'w'), indent=1)
    rows.append((name, code, sig.group(2) if sig else '-'))
    print(name, 'exit', code, sig.group(2) if sig else '-', flush=True)
assert sh(f'git -C {REPO} diff --quiet').returncode == 0
print('detected', sum(1 for r in rows if r[1] == 1), 'of', len(rows))
