#!/usr/bin/env python3
"""Cross-detection: apply one seeded change and run the quick check of EVERY property (not only the
targeted one); record which checks raise an alarm. Usage: cross_matrix.py <out.json> ID-n ...
Honours SM_REPO / SM_VERIF like seed_matrix.py (C14 is skipped in a scratch copy: its programs name /repo)."""
import json, os, re, subprocess, sys
REPO = os.environ.get('SM_REPO', '/repo'); VERIF = os.environ.get('SM_VERIF', '/verif')
def sh(cmd, **kw): return subprocess.run(cmd, shell=True, capture_output=True, text=True, **kw)
out_path, names = sys.argv[1], sys.argv[2:]
props = [f'C{i:02d}' for i in range(1, 21) if not (REPO != '/repo' and i == 14)]
assert sh(f'git -C {REPO} diff --quiet').returncode == 0, "repo is dirty"
res = json.load(open(out_path)) if os.path.exists(out_path) else {}
for name in names:
    assert sh(f'git -C {REPO} apply /verif/seeded/{name}/patch.diff').returncode == 0, name
    row = {}
    try:
        for p in props:
            try:
                c = sh(f'cd {VERIF} && PTV_NO_EVIDENCE=1 ./check {p} quick', timeout=900)
                sig = re.search(r'violated oracle: (\S+) \[(.*?)\]', c.stdout)
                row[p] = {'exit': c.returncode, 'oracle': sig.group(2) if sig else None}
            except subprocess.TimeoutExpired:
                row[p] = {'exit': 2, 'oracle': 'timeout'}
    finally:
        sh(f'git -C {REPO} checkout -- .')
    res[name] = row
    json.dump(res, open(out_path, 'w'), indent=1)
    print(name, 'alarms:', ' '.join(p for p in props if row[p]['exit'] == 1), '| infra:', ' '.join(p for p in props if row[p]['exit'] not in (0, 1)), flush=True)
