#!/usr/bin/env bash
# seedtest.sh <patch> <ID> [tier]  : apply a seeded change to /repo, run the check, undo. Prints verdict.
set -u
PATCH="$1"; ID="$2"; TIER="${3:-quick}"
cd /repo
if ! git diff --quiet; then echo "REPO DIRTY"; exit 3; fi
if ! git apply "$PATCH" 2>/tmp/seedapply.err; then echo "APPLY-FAILED $(head -2 /tmp/seedapply.err)"; exit 3; fi
cd /verif
OUT=$(PTV_NO_EVIDENCE=1 ./check "$ID" "$TIER" 2>&1); CODE=$?
cd /repo && git checkout -- . 
echo "$OUT" | grep -E "VIOLATION|violated oracle|INFRASTRUCTURE|^OK|error" | head -5
echo "EXIT=$CODE patch=$PATCH check=$ID"
