#!/usr/bin/env bash
# verify_seed.sh <ID> <n>: confirm a seeded change in its scratch worktree $SEED_BASE/<ID> (default /tmp/seed;
# rounds 2-4 used SEED_BASE=/tmp/seedN SEED_SUFFIX=-rN):
#  applies, builds (all features), existing suite green with it, demo fails with it and passes without.
# On success stores it as /verif/seeded/<ID>-<n>/ {patch.diff, demo.rs, meta.json, NOTES.md}
set -u
ID="$1"; N="$2"; BASE="${SEED_BASE:-/tmp/seed}"; SUF="${SEED_SUFFIX:-}"; WT=$BASE/$ID; OUT=$BASE/out/$ID
P=$OUT/change$N.diff; D=$OUT/demo$N.rs
[ -f "$P" ] && [ -f "$D" ] || { echo "$ID-$N: missing deliverables"; exit 1; }
cd "$WT" || exit 1
git checkout -q -- . ; git checkout -q --detach main 2>/dev/null
rm -rf tests; mkdir -p tests
export CARGO_NET_OFFLINE=true
R="$ID-$N:"
git apply --check "$P" || { echo "$R patch does not apply to HEAD"; exit 1; }
# demo without the change: must pass
cp "$D" tests/demo_seed.rs
if cargo test --offline --all-features --test demo_seed >$OUT/v$N-clean.log 2>&1; then CLEAN=pass; else CLEAN=fail; fi
git apply "$P"
if cargo build --offline --all-features >$OUT/v$N-build.log 2>&1; then BUILD=ok; else BUILD=fail; fi
if cargo test --offline --all-features --test demo_seed >$OUT/v$N-mut.log 2>&1; then MUT=pass; else MUT=fail; fi
rm -f tests/demo_seed.rs; rmdir tests 2>/dev/null
if cargo test --workspace --no-fail-fast --offline >$OUT/v$N-suite.log 2>&1; then SUITE=green; else SUITE=red; fi
NS=$(grep -E "^test result" $OUT/v$N-suite.log | head -1)
git checkout -q -- . ; git clean -fdq tests 2>/dev/null
echo "$R build=$BUILD suite=$SUITE ($NS) demo_with_change=$MUT demo_without=$CLEAN"
if [ "$BUILD" = ok ] && [ "$SUITE" = green ] && [ "$MUT" = fail ] && [ "$CLEAN" = pass ]; then
  S=/verif/seeded/$ID$SUF-$N; mkdir -p "$S"
  cp "$P" "$S/patch.diff"; cp "$D" "$S/demo.rs"; cp "$OUT/NOTES.md" "$S/NOTES.md" 2>/dev/null
  echo "CONFIRMED" > "$S/.confirmed"
  echo "$R CONFIRMED -> $S"
else
  echo "$R REJECTED"
fi
