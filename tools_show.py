import json,sys
r=json.load(open(sys.argv[1]))
print(r['signature'],'|',r['message'])
c=r['case']
if 'case' in c:
    print('mode',c['mode'],'nav_a',json.dumps(c['nav_a']),'nav_b',json.dumps(c['nav_b']))
    c=c['case']
print('type',c.get('ptype'))
for o in c.get('ops',[]): print('  ',json.dumps(o))
for k in c:
    if k not in ('ops','usteps','ptype','extra'): print(k, json.dumps(c[k])[:600])
