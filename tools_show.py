import json,sys
r=json.load(open(sys.argv[1]))
print(r['signature'],'|',r['message'])
c=r['case']
print('type',c.get('ptype'))
for o in c.get('ops',[]): print('  ',json.dumps(o))
for k in c:
    if k not in ('ops','usteps','ptype'): print(k, json.dumps(c[k])[:600])
